//! If this crate stops compiling because `Regex` lost `Send` or `Sync`,
//! check C18 reports a violation.
fn assert_send_sync<T: Send + Sync>() {}

pub fn probe() {
    assert_send_sync::<regexml::Regex>();
}
