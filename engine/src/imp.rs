//! Adapter around the implementation under test: one function per API step,
//! returning a closed observation type. Every call runs under `catch_unwind`
//! with a fresh fuel budget; iterators are drained with a hard item cap and
//! then polled three more times to observe fusing.

use regexml::{AnalyzeEntry, Error, MatchEntry, Regex};
use std::cell::Cell;
use std::panic::{catch_unwind, AssertUnwindSafe};

pub const FUEL: u64 = 300_000;

thread_local! {
    pub static MAX_FUEL_USED: Cell<u64> = const { Cell::new(0) };
    pub static STEPS: Cell<u64> = const { Cell::new(0) };
}

#[derive(Clone, Debug, PartialEq, Eq, Hash)]
pub enum EK {
    Internal,
    InvalidFlags,
    Syntax,
    MatchesEmptyString,
    InvalidReplacementString,
}

impl EK {
    pub fn of(e: &Error) -> EK {
        match e {
            Error::Internal => EK::Internal,
            Error::InvalidFlags(_) => EK::InvalidFlags,
            Error::Syntax(_) => EK::Syntax,
            Error::MatchesEmptyString => EK::MatchesEmptyString,
            Error::InvalidReplacementString(_) => EK::InvalidReplacementString,
        }
    }
}

#[derive(Clone, Debug, PartialEq, Eq, Hash)]
pub enum Out<T> {
    Ok(T),
    Err(EK),
    /// panic with message and location-free text
    Panic(String),
    /// step budget exhausted at tick site
    Fuel(u32),
    /// iterator produced more items than the hard cap
    TooMany(usize),
    /// iterator returned Some after None
    NotFused,
}

impl<T> Out<T> {
    pub fn is_crash(&self) -> bool {
        matches!(self, Out::Panic(_) | Out::Fuel(_) | Out::TooMany(_) | Out::NotFused)
    }
    pub fn ok(&self) -> Option<&T> {
        match self {
            Out::Ok(t) => Some(t),
            _ => None,
        }
    }
    pub fn map<U>(self, f: impl FnOnce(T) -> U) -> Out<U> {
        match self {
            Out::Ok(t) => Out::Ok(f(t)),
            Out::Err(e) => Out::Err(e),
            Out::Panic(m) => Out::Panic(m),
            Out::Fuel(s) => Out::Fuel(s),
            Out::TooMany(n) => Out::TooMany(n),
            Out::NotFused => Out::NotFused,
        }
    }
}

impl<T: std::fmt::Debug> Out<T> {
    pub fn show(&self) -> String {
        match self {
            Out::Ok(t) => format!("Ok({:?})", t),
            Out::Err(e) => format!("Err({:?})", e),
            Out::Panic(m) => format!("PANIC({})", m),
            Out::Fuel(s) => format!("NONTERMINATION(fuel exhausted at tick site {})", s),
            Out::TooMany(n) => format!("TOO-MANY-ITEMS(>{})", n),
            Out::NotFused => "NOT-FUSED(Some after None)".to_string(),
        }
    }
    /// Short failure-kind label for crash observations.
    pub fn crash_kind(&self) -> String {
        match self {
            Out::Panic(m) => format!("Panic:{}", panic_class(m)),
            Out::Fuel(s) => format!("Hang@{}", s),
            Out::TooMany(_) => "TooManyItems".into(),
            Out::NotFused => "NotFused".into(),
            _ => "".into(),
        }
    }
}

/// Coarse classification of a panic message (stable across line-number changes).
pub fn panic_class(m: &str) -> String {
    let m = m.to_lowercase();
    for (needle, class) in [
        ("subtract with overflow", "sub-overflow"),
        ("add with overflow", "add-overflow"),
        ("multiply with overflow", "mul-overflow"),
        ("index out of bounds", "index-oob"),
        ("out of range", "range-oob"),
        ("slice index", "slice-index"),
        ("unwrap()` on a `none`", "unwrap-none"),
        ("unwrap()` on an `err`", "unwrap-err"),
        ("not yet implemented", "todo"),
        ("unreachable", "unreachable"),
        ("already borrowed", "refcell"),
        ("already mutably borrowed", "refcell"),
        ("capacity overflow", "capacity"),
    ] {
        if m.contains(needle) {
            return class.to_string();
        }
    }
    "other".to_string()
}

pub fn install_quiet_panic_hook() {
    std::panic::set_hook(Box::new(|_| {}));
}

thread_local! {
    static FUEL_OVERRIDE: Cell<u64> = const { Cell::new(0) };
}

/// Run `f` with a larger step budget per API step (whole-Unicode haystacks).
pub fn with_fuel<T>(fuel: u64, f: impl FnOnce() -> T) -> T {
    FUEL_OVERRIDE.with(|o| o.set(fuel));
    let r = f();
    FUEL_OVERRIDE.with(|o| o.set(0));
    r
}

fn guarded<T>(f: impl FnOnce() -> T) -> Result<T, Out<()>> {
    let over = FUEL_OVERRIDE.with(|o| o.get());
    regexml::verif::set_fuel(if over > 0 { over } else { FUEL });
    let r = catch_unwind(AssertUnwindSafe(f));
    let used = regexml::verif::used();
    STEPS.with(|s| s.set(s.get() + 1));
    match r {
        Ok(t) => {
            if over == 0 {
                MAX_FUEL_USED.with(|m| {
                    if used > m.get() {
                        m.set(used)
                    }
                });
            }
            Ok(t)
        }
        Err(payload) => {
            if let Some(fe) = payload.downcast_ref::<regexml::verif::FuelExhausted>() {
                Err(Out::Fuel(fe.site))
            } else if let Some(s) = payload.downcast_ref::<String>() {
                Err(Out::Panic(s.clone()))
            } else if let Some(s) = payload.downcast_ref::<&str>() {
                Err(Out::Panic(s.to_string()))
            } else {
                Err(Out::Panic("<non-string payload>".into()))
            }
        }
    }
}

fn lift<T, U>(r: Result<Result<T, Error>, Out<()>>, f: impl FnOnce(T) -> U) -> Out<U> {
    match r {
        Ok(Ok(t)) => Out::Ok(f(t)),
        Ok(Err(e)) => Out::Err(EK::of(&e)),
        Err(o) => o.map(|_| unreachable!()),
    }
}

pub fn compile(p: &str, flags: &str, xsd: bool) -> Out<Regex> {
    lift(
        guarded(|| if xsd { Regex::xsd(p, flags) } else { Regex::xpath(p, flags) }),
        |r| r,
    )
}

pub fn compile_opts(p: &str, flags: &str, xsd: bool, opts: u32) -> Out<Regex> {
    lift(guarded(|| Regex::verif_new(p, flags, xsd, opts)), |r| r)
}

pub fn is_match(re: &Regex, s: &str) -> Out<bool> {
    match guarded(|| re.is_match(s)) {
        Ok(b) => Out::Ok(b),
        Err(o) => o.map(|_| unreachable!()),
    }
}

pub fn replace_all(re: &Regex, s: &str, r: &str) -> Out<String> {
    lift(guarded(|| re.replace_all(s, r)), |x| x)
}

/// Drain an iterator under fuel with an item cap; afterwards poll three more
/// times. Each `next()` gets its own fuel budget (each is an API step).
fn drain<I: Iterator>(mut it: I, cap: usize) -> Out<Vec<I::Item>> {
    let mut out = Vec::new();
    loop {
        match guarded(|| it.next()) {
            Ok(Some(x)) => {
                out.push(x);
                if out.len() > cap {
                    return Out::TooMany(cap);
                }
            }
            Ok(None) => break,
            Err(o) => return o.map(|_| unreachable!()),
        }
    }
    for _ in 0..3 {
        match guarded(|| it.next()) {
            Ok(None) => {}
            Ok(Some(_)) => return Out::NotFused,
            Err(o) => return o.map(|_| unreachable!()),
        }
    }
    Out::Ok(out)
}

pub fn tokenize(re: &Regex, s: &str) -> Out<Vec<String>> {
    let n = s.chars().count();
    match guarded(|| re.tokenize(s)) {
        Ok(Ok(it)) => drain(it, n + 1),
        Ok(Err(e)) => Out::Err(EK::of(&e)),
        Err(o) => o.map(|_| unreachable!()),
    }
}

pub fn analyze(re: &Regex, s: &str) -> Out<Vec<AnalyzeEntry>> {
    let n = s.chars().count();
    match guarded(|| re.analyze(s)) {
        Ok(Ok(it)) => drain(it, 2 * n + 1),
        Ok(Err(e)) => Out::Err(EK::of(&e)),
        Err(o) => o.map(|_| unreachable!()),
    }
}

/// Concatenated text of a match entry list.
pub fn entries_text(v: &[MatchEntry], out: &mut String) {
    for e in v {
        match e {
            MatchEntry::String(s) => out.push_str(s),
            MatchEntry::Group { value, .. } => entries_text(value, out),
        }
    }
}

pub fn entry_text(e: &AnalyzeEntry) -> String {
    match e {
        AnalyzeEntry::NonMatch(s) => s.clone(),
        AnalyzeEntry::Match(v) => {
            let mut s = String::new();
            entries_text(v, &mut s);
            s
        }
    }
}

/// Match spans (in characters) derived from analyze output.
pub fn spans_from_analyze(v: &[AnalyzeEntry]) -> Vec<(usize, usize)> {
    let mut pos = 0;
    let mut out = vec![];
    for e in v {
        let l = entry_text(e).chars().count();
        if let AnalyzeEntry::Match(_) = e {
            out.push((pos, pos + l));
        }
        pos += l;
    }
    out
}

/// Match spans via replace_all with marker characters U+0001 / U+0002
/// (the input alphabet must not contain them).
pub fn spans_from_replace(re: &Regex, s: &str) -> Out<Vec<(usize, usize)>> {
    replace_all(re, s, "\u{1}$0\u{2}").map(|r| {
        let mut out = vec![];
        let mut pos = 0;
        let mut start = None;
        for c in r.chars() {
            match c {
                '\u{1}' => start = Some(pos),
                '\u{2}' => {
                    if let Some(st) = start.take() {
                        out.push((st, pos));
                    }
                }
                _ => pos += 1,
            }
        }
        out
    })
}

/// A compact observation of the whole API surface on one input, for
/// differential comparisons.
#[derive(Clone, Debug, PartialEq, Eq, Hash)]
pub struct Surface {
    pub is_match: Out<bool>,
    pub replace: Out<String>,
    pub tokens: Out<Vec<String>>,
    pub analyze: Out<Vec<String>>,
}

pub fn show_entries(v: &[AnalyzeEntry]) -> Vec<String> {
    v.iter().map(|e| format!("{:?}", e)).collect()
}

pub fn surface(re: &Regex, s: &str, repl: &str) -> Surface {
    Surface {
        is_match: is_match(re, s),
        replace: replace_all(re, s, repl),
        tokens: tokenize(re, s),
        analyze: analyze(re, s).map(|v| show_entries(&v)),
    }
}

impl Surface {
    pub fn any_crash(&self) -> bool {
        self.is_match.is_crash() || self.replace.is_crash() || self.tokens.is_crash() || self.analyze.is_crash()
    }
    pub fn show(&self) -> String {
        format!(
            "is_match={} replace_all={} tokenize={} analyze={}",
            self.is_match.show(),
            self.replace.show(),
            self.tokens.show(),
            self.analyze.show()
        )
    }
}
