//! Unicode / XML data for the reference model, independent of regexml:
//! * General_Category runs from a committed witness table generated from
//!   CPython's `unicodedata` (Unicode 14.0),
//! * block ranges parsed from the repository's own Blocks.txt /
//!   CompatBlocks.txt,
//! * XML 1.0 (5th ed.) NameStartChar / NameChar transcribed from the
//!   recommendation.

use crate::refparse::Esc;
use std::collections::HashMap;

const GC_WITNESS: &str = include_str!("../../data/gc_witness.txt");

pub const BLOCKS_TXT: &str = "/repo/regexml-ucd-blocks/src/Blocks.txt";
pub const COMPAT_TXT: &str = "/repo/regexml-ucd-blocks/src/CompatBlocks.txt";

pub struct Ucd {
    /// (start, end, category)
    pub runs: Vec<(u32, u32, [u8; 2])>,
    /// lookup name (spaces and underscores removed) -> ranges
    pub blocks: HashMap<String, Vec<(u32, u32)>>,
    /// block names in file order (lookup form)
    pub block_names: Vec<String>,
}

pub const NAME_START: &[(u32, u32)] = &[
    (0x3A, 0x3A),
    (0x41, 0x5A),
    (0x5F, 0x5F),
    (0x61, 0x7A),
    (0xC0, 0xD6),
    (0xD8, 0xF6),
    (0xF8, 0x2FF),
    (0x370, 0x37D),
    (0x37F, 0x1FFF),
    (0x200C, 0x200D),
    (0x2070, 0x218F),
    (0x2C00, 0x2FEF),
    (0x3001, 0xD7FF),
    (0xF900, 0xFDCF),
    (0xFDF0, 0xFFFD),
    (0x10000, 0xEFFFF),
];

pub const NAME_EXTRA: &[(u32, u32)] = &[
    (0x2D, 0x2D),
    (0x2E, 0x2E),
    (0x30, 0x39),
    (0xB7, 0xB7),
    (0x300, 0x36F),
    (0x203F, 0x2040),
];

fn in_ranges(r: &[(u32, u32)], c: u32) -> bool {
    r.iter().any(|(a, b)| *a <= c && c <= *b)
}

impl Ucd {
    pub fn load() -> Result<Ucd, String> {
        let mut runs = Vec::new();
        for line in GC_WITNESS.lines() {
            if line.starts_with('#') || line.trim().is_empty() {
                continue;
            }
            let f: Vec<&str> = line.split_whitespace().collect();
            if f.len() != 3 {
                return Err(format!("bad witness line {:?}", line));
            }
            let a = u32::from_str_radix(f[0], 16).map_err(|e| e.to_string())?;
            let b = u32::from_str_radix(f[1], 16).map_err(|e| e.to_string())?;
            let cb = f[2].as_bytes();
            runs.push((a, b, [cb[0], cb[1]]));
        }
        // sanity: contiguous cover of 0..=10FFFF
        let mut next = 0u32;
        for (a, b, _) in &runs {
            if *a != next || b < a {
                return Err("witness table is not a contiguous cover".into());
            }
            next = b + 1;
        }
        if next != 0x110000 {
            return Err("witness table does not end at 10FFFF".into());
        }
        let mut blocks: HashMap<String, Vec<(u32, u32)>> = HashMap::new();
        let mut block_names = Vec::new();
        for path in [BLOCKS_TXT, COMPAT_TXT] {
            let text = std::fs::read_to_string(path).map_err(|e| format!("{}: {}", path, e))?;
            for line in text.lines() {
                let line = line.trim();
                if line.is_empty() || line.starts_with('#') {
                    continue;
                }
                let mut it = line.split(';');
                let range = it.next().unwrap().trim();
                let name = it.next().ok_or_else(|| format!("bad block line {:?}", line))?.trim();
                let mut rr = range.split("..");
                let a = u32::from_str_radix(rr.next().unwrap(), 16).map_err(|e| e.to_string())?;
                let b = u32::from_str_radix(rr.next().ok_or("bad range")?, 16).map_err(|e| e.to_string())?;
                let lookup: String = name.chars().filter(|c| *c != ' ' && *c != '_').collect();
                if !blocks.contains_key(&lookup) {
                    block_names.push(lookup.clone());
                }
                // a later definition of the same lookup name replaces the earlier one
                blocks.insert(lookup, vec![(a, b)]);
            }
        }
        // XSD 1.1 G.4.2.3: PrivateUse is the union of three ranges
        if !blocks.contains_key("PrivateUse") {
            block_names.push("PrivateUse".to_string());
        }
        blocks.insert(
            "PrivateUse".to_string(),
            vec![(0xE000, 0xF8FF), (0xF0000, 0xFFFFD), (0x100000, 0x10FFFD)],
        );
        Ok(Ucd {
            runs,
            blocks,
            block_names,
        })
    }

    pub fn category(&self, c: u32) -> [u8; 2] {
        let mut lo = 0usize;
        let mut hi = self.runs.len();
        while lo + 1 < hi {
            let mid = (lo + hi) / 2;
            if self.runs[mid].0 <= c {
                lo = mid;
            } else {
                hi = mid;
            }
        }
        self.runs[lo].2
    }

    pub fn known_block(&self, name: &str) -> bool {
        self.blocks.contains_key(name)
    }

    /// Does the witness category of `c` belong to category (one or two letters) `name`?
    pub fn in_category(&self, name: &str, c: u32) -> bool {
        let cat = self.category(c);
        let nb = name.as_bytes();
        if nb.len() == 1 {
            cat[0] == nb[0]
        } else {
            cat[0] == nb[0] && cat[1] == nb[1]
        }
    }

    pub fn is_name_start(c: u32) -> bool {
        in_ranges(NAME_START, c)
    }

    pub fn is_name_char(c: u32) -> bool {
        in_ranges(NAME_START, c) || in_ranges(NAME_EXTRA, c)
    }

    /// Membership of a scalar value in a multi-character / category escape.
    pub fn esc_contains(&self, e: &Esc, ch: char) -> bool {
        let c = ch as u32;
        let pos = match e.kind.to_ascii_lowercase() {
            's' => matches!(c, 0x20 | 0x9 | 0xA | 0xD),
            'i' => Self::is_name_start(c),
            'c' => Self::is_name_char(c),
            'd' => self.in_category("Nd", c),
            'w' => {
                let cat = self.category(c);
                !(cat[0] == b'P' || cat[0] == b'Z' || cat[0] == b'C')
            }
            'p' => {
                if let Some(b) = e.name.strip_prefix("Is") {
                    // a two-letter category can never start with "Is", so this is a block
                    match self.blocks.get(b) {
                        Some(r) => in_ranges(r, c),
                        None => false,
                    }
                } else {
                    self.in_category(&e.name, c)
                }
            }
            _ => false,
        };
        if e.kind.is_ascii_uppercase() {
            !pos
        } else {
            pos
        }
    }
}

/// Simple case counterparts: equal, or related by a one-to-one lower/upper
/// mapping. Only used on alphabets of letters with one-to-one simple case
/// mappings (the properties' quantifier).
pub fn case_eq(a: char, b: char) -> bool {
    if a == b {
        return true;
    }
    let l = |c: char| -> char {
        let mut it = c.to_lowercase();
        match (it.next(), it.next()) {
            (Some(x), None) => x,
            _ => c,
        }
    };
    let u = |c: char| -> char {
        let mut it = c.to_uppercase();
        match (it.next(), it.next()) {
            (Some(x), None) => x,
            _ => c,
        }
    };
    l(a) == l(b) || u(a) == u(b)
}

/// The case counterparts of a character (itself included).
pub fn case_variants(c: char) -> Vec<char> {
    let mut v = vec![c];
    let mut it = c.to_lowercase();
    if let (Some(x), None) = (it.next(), it.next()) {
        if !v.contains(&x) {
            v.push(x);
        }
    }
    let mut it = c.to_uppercase();
    if let (Some(x), None) = (it.next(), it.next()) {
        if !v.contains(&x) {
            v.push(x);
        }
    }
    v
}

/// Swap the case of a character if it has a one-to-one counterpart.
pub fn swap_case(c: char) -> char {
    for v in case_variants(c) {
        if v != c {
            return v;
        }
    }
    c
}
