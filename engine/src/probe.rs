//! `rxmc probe` / `rxmc replay`: run one case through the adapter with no
//! explorer involved and print implementation observations next to the
//! reference model's verdicts.

use crate::imp::{self, Out};
use crate::refparse::{self, Dialect, Verdict};
use crate::sem::{Fl, Paths, Sem};
use crate::ucd::Ucd;
use crate::util::{json_get_str, vis};

pub fn probe(ucd: &Ucd, pattern: &str, flags: &str, xsd: bool, input: &str, repl: &str) -> Vec<(String, String)> {
    let mut obs: Vec<(String, String)> = vec![];
    let d = if xsd { Dialect::Xsd } else { Dialect::XPath };
    let v = refparse::parse(pattern, d, ucd);
    println!("pattern  {:?}  flags {:?}  dialect {}  input {:?}  replacement {:?}", pattern, flags, if xsd { "xsd" } else { "xpath" }, input, repl);
    match &v {
        Verdict::Valid(p) => println!("ref parse: Valid, {} groups, ast = {:?}", p.groups, p.ast),
        Verdict::Invalid(w) => println!("ref parse: Invalid ({})", w),
        Verdict::Unclear(w) => println!("ref parse: Unclear ({})", w),
    }
    let c = imp::compile(pattern, flags, xsd);
    let cs = match &c {
        Out::Ok(_) => "Ok".to_string(),
        Out::Err(e) => format!("Err({:?})", e),
        Out::Panic(m) => format!("PANIC({})", m),
        Out::Fuel(site) => format!("NONTERMINATION(fuel exhausted at tick site {})", site),
        _ => "?".to_string(),
    };
    println!("impl compile: {}", cs);
    obs.push(("compile".into(), cs));
    if let Out::Ok(re) = &c {
        println!("impl program: {}", re.verif_program());
        let o = imp::is_match(re, input).show();
        println!("impl is_match: {}", o);
        obs.push(("is_match".into(), o));
        let o = imp::replace_all(re, input, repl).show();
        println!("impl replace_all: {}", o);
        obs.push(("replace_all".into(), o));
        let o = imp::tokenize(re, input).show();
        println!("impl tokenize: {}", o);
        obs.push(("tokenize".into(), o));
        let o = imp::analyze(re, input).show();
        println!("impl analyze: {}", o);
        obs.push(("analyze".into(), o));
        let o = imp::spans_from_replace(re, input).show();
        println!("impl spans (via replace markers): {}", o);
        obs.push(("spans".into(), o));
        if let Out::Ok(un) = imp::compile_opts(pattern, flags, xsd, regexml::verif::opts::ALL_OFF) {
            println!("impl (all optimisations off) is_match: {}", imp::is_match(&un, input).show());
        }
    }
    if let Verdict::Valid(p) = &v {
        if !flags.contains('q') && !flags.contains('x') {
            let chars: Vec<char> = input.chars().collect();
            let fl = Fl::parse(flags);
            if !p.ast.has_backref() && chars.len() < 30 {
                let sem = Sem { s: &chars, f: fl, ucd };
                println!("ref lang is_match: {}", sem.lang_is_match(&p.ast));
            }
            let paths = Paths::new(&chars, fl, ucd);
            match paths.scan(&p.ast, p.groups) {
                Ok(v) => {
                    let shown: Vec<String> = v
                        .iter()
                        .map(|(s, e, c)| {
                            let caps: Vec<String> = c.iter().skip(1).map(|x| match x {
                                Some((a, b)) => format!("{:?}", chars[*a..*b].iter().collect::<String>()),
                                None => "-".into(),
                            }).collect();
                            format!("[{},{}) caps {}", s, e, caps.join(","))
                        })
                        .collect();
                    println!("ref paths scan (ordered choice, nullable-loop rule of Perl): {:?}", shown);
                    println!("ref strict ordered-choice claim applies: {}", !p.ast.has_nullable_loop());
                }
                Err(_) => println!("ref paths: out of budget"),
            }
        }
    }
    obs
}

pub fn replay(ucd: &Ucd, path: &str) -> i32 {
    let text = match std::fs::read_to_string(path) {
        Ok(t) => t,
        Err(e) => {
            eprintln!("cannot read {}: {}", path, e);
            return 2;
        }
    };
    let g = |k: &str| json_get_str(&text, k).unwrap_or_default();
    let property = g("property");
    println!("replaying {} (property {}, kind {})", path, property, g("kind"));
    println!("key: {}", g("key"));
    if text.contains("\"proc_pair\"") {
        return crate::checks::c18::replay_proc_pair(&g("proc_pair"));
    }
    if text.contains("\"schedule\"") || text.contains("\"history\"") {
        return crate::checks::c18::replay(ucd, &text);
    }
    let api = g("api");
    let obs = probe(ucd, &g("pattern"), &g("flags"), g("dialect") == "xsd", &g("input"), &g("replacement"));
    println!("recorded expected: {}", g("expected"));
    println!("recorded observed: {}", g("observed"));
    let note = g("note");
    if !note.is_empty() {
        println!("note: {}", note);
    }
    let now = obs.iter().find(|(a, _)| *a == api).map(|x| x.1.clone());
    if let Some(now) = now {
        let now = vis(&now);
        println!("current observation of {}: {}", api, now);
        // exit 1 when the recorded wrong observation is what the code does now
        let (exp, rec) = (g("expected"), g("observed"));
        let same = |a: &str, b: &str| a == b || a == format!("Ok({})", b);
        if rec != exp && same(&now, &rec) {
            println!("REPRODUCED: the implementation still answers as recorded");
            return 1;
        }
        if same(&now, &exp) {
            println!("NOT REPRODUCED: the implementation now answers as expected");
        }
    }
    0
}
