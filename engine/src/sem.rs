//! Reference semantics over the reference AST.
//!
//! * `lang`: set semantics (order-free, compositional): `ends(node, i)` is the
//!   bitmask of end positions; alternation = union, sequence = relational
//!   composition, {n,m} = union of k-fold compositions. No back-references.
//! * `paths`: ordered semantics: a continuation-passing backtracking
//!   interpreter with a persistent capture vector that enumerates match paths
//!   in priority order (earlier alternative first, greedy = more first,
//!   reluctant = fewer first, earlier term dominates).

use crate::refparse::{Ast, ClassExpr, Part};
use crate::ucd::{case_eq, case_variants, Ucd};

#[derive(Clone, Copy, Debug, Default, PartialEq, Eq)]
pub struct Fl {
    pub i: bool,
    pub m: bool,
    pub s: bool,
}

impl Fl {
    pub fn parse(f: &str) -> Fl {
        Fl {
            i: f.contains('i'),
            m: f.contains('m'),
            s: f.contains('s'),
        }
    }
}

pub fn lit_matches(pat: char, inp: char, ci: bool) -> bool {
    pat == inp || (ci && case_eq(pat, inp))
}

/// Membership in a class expression: item-level case closure under flag i
/// (a single character or a range matches an input character when the two are
/// equal or case counterparts), class escapes unaffected, then negation and
/// subtraction as set algebra.
pub fn class_contains(ce: &ClassExpr, c: char, ci: bool, ucd: &Ucd) -> bool {
    let mut pos = false;
    for p in &ce.parts {
        let hit = match p {
            Part::Ch(x) => lit_matches(*x, c, ci),
            Part::Range(a, b) => {
                if ci {
                    case_variants(c).iter().any(|v| *a <= *v && *v <= *b)
                } else {
                    *a <= c && c <= *b
                }
            }
            Part::Esc(e) => ucd.esc_contains(e, c),
        };
        if hit {
            pos = true;
            break;
        }
    }
    let mut r = if ce.neg { !pos } else { pos };
    if r {
        if let Some(s) = &ce.sub {
            if class_contains(s, c, ci, ucd) {
                r = false;
            }
        }
    }
    r
}

fn bol(s: &[char], p: usize, f: Fl) -> bool {
    p == 0 || (f.m && s[p - 1] == '\n' && p < s.len())
}

fn eol(s: &[char], p: usize, f: Fl) -> bool {
    p == s.len() || (f.m && s[p] == '\n')
}

fn dot(c: char, f: Fl) -> bool {
    f.s || (c != '\n' && c != '\r')
}

pub struct Sem<'a> {
    pub s: &'a [char],
    pub f: Fl,
    pub ucd: &'a Ucd,
}

impl<'a> Sem<'a> {
    fn one(&self, node: &Ast, c: char) -> bool {
        match node {
            Ast::Lit(x) => lit_matches(*x, c, self.f.i),
            Ast::Dot => dot(c, self.f),
            Ast::Class(ce) => class_contains(ce, c, self.f.i, self.ucd),
            Ast::Esc(e) => self.ucd.esc_contains(e, c),
            _ => unreachable!(),
        }
    }

    /// Set of end positions of matches of `node` starting at `p`.
    /// Panics on back-references (callers check `has_backref`).
    pub fn ends(&self, node: &Ast, p: usize) -> u32 {
        let n = self.s.len();
        match node {
            Ast::Empty => 1 << p,
            Ast::Lit(_) | Ast::Dot | Ast::Class(_) | Ast::Esc(_) => {
                if p < n && self.one(node, self.s[p]) {
                    1 << (p + 1)
                } else {
                    0
                }
            }
            Ast::Bol => {
                if bol(self.s, p, self.f) {
                    1 << p
                } else {
                    0
                }
            }
            Ast::Eol => {
                if eol(self.s, p, self.f) {
                    1 << p
                } else {
                    0
                }
            }
            Ast::Seq(v) => {
                let mut cur: u32 = 1 << p;
                for x in v {
                    cur = self.step(x, cur);
                    if cur == 0 {
                        break;
                    }
                }
                cur
            }
            Ast::Alt(v) => v.iter().fold(0, |acc, x| acc | self.ends(x, p)),
            Ast::Group(_, b) | Ast::NonCap(b) => self.ends(b, p),
            Ast::Rep(b, min, max, _) => {
                let min = *min as usize;
                let hi = max.map(|m| m as usize).unwrap_or(usize::MAX).min(min + n + 1);
                let mut cur: u32 = 1 << p;
                let mut out = 0u32;
                let mut k = 0usize;
                loop {
                    if k >= min {
                        out |= cur;
                    }
                    if k == hi {
                        break;
                    }
                    cur = self.step(b, cur);
                    if cur == 0 {
                        break;
                    }
                    k += 1;
                }
                out
            }
            Ast::BackRef(_) => panic!("lang semantics does not define back-references"),
        }
    }

    fn step(&self, node: &Ast, mut from: u32) -> u32 {
        let mut out = 0;
        while from != 0 {
            let q = from.trailing_zeros() as usize;
            from &= from - 1;
            out |= self.ends(node, q);
        }
        out
    }

    /// Does some substring belong to the language?
    pub fn lang_is_match(&self, root: &Ast) -> bool {
        (0..=self.s.len()).any(|p| self.ends(root, p) != 0)
    }

    /// Leftmost start >= from at which some match exists, with the set of ends.
    pub fn lang_leftmost(&self, root: &Ast, from: usize) -> Option<(usize, u32)> {
        for p in from..=self.s.len() {
            let e = self.ends(root, p);
            if e != 0 {
                return Some((p, e));
            }
        }
        None
    }
}

// ---------------------------------------------------------------------------
// Ordered semantics

pub type Caps = Vec<Option<(usize, usize)>>;

pub struct Paths<'a> {
    pub s: &'a [char],
    pub f: Fl,
    pub ucd: &'a Ucd,
    /// step budget for the reference itself (exhaustion => inconclusive)
    pub budget: std::cell::Cell<u64>,
}

pub struct OutOfBudget;

impl<'a> Paths<'a> {
    pub fn new(s: &'a [char], f: Fl, ucd: &'a Ucd) -> Self {
        Paths {
            s,
            f,
            ucd,
            budget: std::cell::Cell::new(2_000_000),
        }
    }

    fn spend(&self) -> bool {
        let b = self.budget.get();
        if b == 0 {
            return false;
        }
        self.budget.set(b - 1);
        true
    }

    fn one(&self, node: &Ast, c: char) -> bool {
        match node {
            Ast::Lit(x) => lit_matches(*x, c, self.f.i),
            Ast::Dot => dot(c, self.f),
            Ast::Class(ce) => class_contains(ce, c, self.f.i, self.ucd),
            Ast::Esc(e) => self.ucd.esc_contains(e, c),
            _ => unreachable!(),
        }
    }

    /// Enumerate match paths of `r` from `pos` in priority order, calling `k`
    /// with (end, captures) for each; stops at the first `k` that returns true.
    pub fn m(&self, r: &Ast, pos: usize, caps: &Caps, k: &mut dyn FnMut(usize, &Caps) -> bool) -> bool {
        if !self.spend() {
            return false;
        }
        match r {
            Ast::Empty => k(pos, caps),
            Ast::Lit(_) | Ast::Dot | Ast::Class(_) | Ast::Esc(_) => {
                pos < self.s.len() && self.one(r, self.s[pos]) && k(pos + 1, caps)
            }
            Ast::Bol => bol(self.s, pos, self.f) && k(pos, caps),
            Ast::Eol => eol(self.s, pos, self.f) && k(pos, caps),
            Ast::BackRef(n) => match caps[*n] {
                None => k(pos, caps),
                Some((a, b)) => {
                    let l = b - a;
                    if pos + l > self.s.len() {
                        return false;
                    }
                    for i in 0..l {
                        if !lit_matches(self.s[a + i], self.s[pos + i], self.f.i) {
                            return false;
                        }
                    }
                    k(pos + l, caps)
                }
            },
            Ast::Seq(v) => self.seq(v, 0, pos, caps, k),
            Ast::Alt(v) => {
                for x in v {
                    if self.m(x, pos, caps, k) {
                        return true;
                    }
                }
                false
            }
            Ast::NonCap(b) => self.m(b, pos, caps, k),
            Ast::Group(n, b) => self.m(b, pos, caps, &mut |p, c| {
                let mut c2 = c.clone();
                c2[*n] = Some((pos, p));
                k(p, &c2)
            }),
            Ast::Rep(b, min, max, greedy) => self.rep(b, *min as usize, max.map(|m| m as usize), *greedy, 0, pos, caps, k),
        }
    }

    fn seq(&self, v: &[Ast], i: usize, pos: usize, caps: &Caps, k: &mut dyn FnMut(usize, &Caps) -> bool) -> bool {
        if i == v.len() {
            return k(pos, caps);
        }
        self.m(&v[i], pos, caps, &mut |p, c| self.seq(v, i + 1, p, c, k))
    }

    #[allow(clippy::too_many_arguments)]
    fn rep(
        &self,
        a: &Ast,
        min: usize,
        max: Option<usize>,
        greedy: bool,
        count: usize,
        pos: usize,
        caps: &Caps,
        k: &mut dyn FnMut(usize, &Caps) -> bool,
    ) -> bool {
        let can_more = max.map_or(true, |m| count < m);
        // an iteration beyond the minimum that consumes nothing ends the loop
        let body = |p: usize, c: &Caps, k: &mut dyn FnMut(usize, &Caps) -> bool| -> bool {
            if p == pos && count >= min {
                false
            } else {
                self.rep(a, min, max, greedy, count + 1, p, c, k)
            }
        };
        if greedy {
            if can_more && self.m(a, pos, caps, &mut |p, c| body(p, c, k)) {
                return true;
            }
            count >= min && k(pos, caps)
        } else {
            if count >= min && k(pos, caps) {
                return true;
            }
            can_more && self.m(a, pos, caps, &mut |p, c| body(p, c, k))
        }
    }

    /// First (preferred) match path starting exactly at `st`.
    pub fn first_at(&self, r: &Ast, st: usize, ngroups: usize) -> Result<Option<(usize, Caps)>, OutOfBudget> {
        let caps: Caps = vec![None; ngroups + 1];
        let mut res = None;
        self.m(r, st, &caps, &mut |p, c| {
            res = Some((p, c.clone()));
            true
        });
        if self.budget.get() == 0 {
            return Err(OutOfBudget);
        }
        Ok(res)
    }

    /// Leftmost preferred match starting at or after `from`.
    pub fn first_from(
        &self,
        r: &Ast,
        from: usize,
        ngroups: usize,
    ) -> Result<Option<(usize, usize, Caps)>, OutOfBudget> {
        for st in from..=self.s.len() {
            if let Some((e, c)) = self.first_at(r, st, ngroups)? {
                return Ok(Some((st, e, c)));
            }
        }
        Ok(None)
    }

    /// Does any path match at any start (exhaustive path exploration)?
    pub fn exists(&self, r: &Ast, ngroups: usize) -> Result<bool, OutOfBudget> {
        Ok(self.first_from(r, 0, ngroups)?.is_some())
    }

    /// All end positions reachable from `st` over all paths (as a bitmask).
    pub fn all_ends_at(&self, r: &Ast, st: usize, ngroups: usize) -> Result<u32, OutOfBudget> {
        let caps: Caps = vec![None; ngroups + 1];
        let mut mask = 0u32;
        self.m(r, st, &caps, &mut |p, _| {
            mask |= 1 << p;
            false
        });
        if self.budget.get() == 0 {
            return Err(OutOfBudget);
        }
        Ok(mask)
    }

    /// The list of successive matches as the scan loops must report them for a
    /// regex that cannot match empty: (start, end, captures).
    pub fn scan(&self, r: &Ast, ngroups: usize) -> Result<Vec<(usize, usize, Caps)>, OutOfBudget> {
        let mut out = vec![];
        let mut pos = 0;
        while pos < self.s.len() {
            match self.first_from(r, pos, ngroups)? {
                None => break,
                Some((st, en, caps)) => {
                    out.push((st, en, caps));
                    // callers only use scan() for regexes that cannot match
                    // empty; advance defensively on a zero-length match
                    pos = if en > st { en } else { en + 1 };
                }
            }
        }
        Ok(out)
    }
}
