//! rxmc — bounded exhaustive model checker for Paligo/regexml.

mod checks;
mod core;
mod gen;
mod imp;
mod probe;
mod refparse;
mod selftest;
mod sem;
mod space;
mod ucd;
mod util;

use crate::core::{Ctx, Tier};

fn usage() -> ! {
    eprintln!("usage: rxmc check <ID> --tier quick|thorough [--jobs N] [--max-secs S]\n       rxmc worker <ID> <tier> [--stripe w n | --only c] [--pinpoint] [--deadline unix]\n       rxmc replay <violation.json>\n       rxmc selftest\n       rxmc list");
    std::process::exit(2)
}

fn main() {
    let args: Vec<String> = std::env::args().collect();
    if args.len() < 2 {
        usage();
    }
    imp::install_quiet_panic_hook();
    let seed: u64 = std::env::var("VERIF_SEED").ok().and_then(|s| s.parse().ok()).unwrap_or(0);
    let ucd = match ucd::Ucd::load() {
        Ok(u) => u,
        Err(e) => {
            eprintln!("MACHINERY ERROR: cannot load Unicode data: {}", e);
            std::process::exit(2);
        }
    };
    match args[1].as_str() {
        "counts" => {
            for name in ["K", "K0", "Q", "CL", "G", "GC", "CI", "AN", "U", "NEST", "LP", "ALT", "CAPQ", "BR", "FX", "ALTC"] {
                let sc = gen::scope(name);
                let v: Vec<String> = (1..=7).map(|n| sc.count(n).to_string()).collect();
                println!("{:3} {}", name, v.join(" "));
            }
        }
        "c18solo" => {
            let p: usize = args.get(2).and_then(|x| x.parse().ok()).unwrap_or(0);
            checks::c18::solo_table_main(p);
        }
        "deepcase" => {
            // rxmc deepcase <shape> <depth> <xsd 0|1>: one deeply nested pattern through the API
            // surface on a thread with a fixed 16 MiB stack (independent of ulimit -s)
            let shape: usize = args.get(2).and_then(|x| x.parse().ok()).unwrap_or(0);
            let depth: usize = args.get(3).and_then(|x| x.parse().ok()).unwrap_or(1);
            let xsd = args.get(4).map_or(false, |x| x == "1");
            let h = std::thread::Builder::new().stack_size(16 << 20).spawn(move || checks::crash::deep_case_main(shape, depth, xsd)).expect("spawn");
            let line = h.join().unwrap_or_else(|_| "PANIC".to_string());
            println!("{}", line);
        }
        "c18procpair" => {
            let a: Option<usize> = args.get(2).and_then(|x| x.parse().ok());
            let b: usize = args.get(3).and_then(|x| x.parse().ok()).unwrap_or(0);
            checks::c18::proc_pair_main(a, b);
        }
        "c18pairsolo" => {
            let t: usize = args.get(2).and_then(|x| x.parse().ok()).unwrap_or(0);
            checks::c18::pair_solo_main(t);
        }
        "selftest" => {
            std::process::exit(selftest::run(&ucd));
        }
        "list" => {
            for c in checks::all() {
                println!("{}", c.id());
            }
        }
        "probe" => {
            // rxmc probe <pattern> <flags> <input> [replacement] [xsd]
            let g = |i: usize| args.get(i).map(|s| util::unvis(s)).unwrap_or_default();
            probe::probe(&ucd, &g(2), &g(3), args.get(6).map_or(false, |s| s == "xsd"), &g(4), &if args.len() > 5 { g(5) } else { "<$0>".to_string() });
        }
        "replay" => {
            if args.len() < 3 {
                usage();
            }
            std::process::exit(probe::replay(&ucd, &args[2]));
        }
        "check" => {
            if args.len() < 3 {
                usage();
            }
            let id = &args[2];
            let mut tier = std::env::var("VERIF_TIER").ok().and_then(|t| Tier::parse(&t)).unwrap_or(Tier::Quick);
            let mut jobs: u64 = std::thread::available_parallelism().map(|n| n.get() as u64).unwrap_or(8);
            let mut max_secs = None;
            let mut i = 3;
            while i < args.len() {
                match args[i].as_str() {
                    "--tier" => {
                        tier = Tier::parse(&args[i + 1]).unwrap_or_else(|| usage());
                        i += 2;
                    }
                    "--jobs" => {
                        jobs = args[i + 1].parse().unwrap_or_else(|_| usage());
                        i += 2;
                    }
                    "--max-secs" => {
                        max_secs = Some(args[i + 1].parse().unwrap_or_else(|_| usage()));
                        i += 2;
                    }
                    _ => usage(),
                }
            }
            let check = checks::by_id(id).unwrap_or_else(|| {
                eprintln!("unknown check {}", id);
                std::process::exit(2)
            });
            let ctx = Ctx { tier, ucd, seed };
            let code = core::coordinator_main(check.as_ref(), &ctx, jobs, max_secs);
            std::process::exit(code);
        }
        "worker" => {
            if args.len() < 4 {
                usage();
            }
            let id = &args[2];
            let tier = Tier::parse(&args[3]).unwrap_or_else(|| usage());
            let mut w = 0;
            let mut n = 1;
            let mut only = None;
            let mut pinpoint = false;
            let mut deadline = None;
            let mut wseed = 0u64;
            let mut i = 4;
            while i < args.len() {
                match args[i].as_str() {
                    "--stripe" => {
                        w = args[i + 1].parse().unwrap();
                        n = args[i + 2].parse().unwrap();
                        i += 3;
                    }
                    "--only" => {
                        only = Some(args[i + 1].parse().unwrap());
                        i += 2;
                    }
                    "--pinpoint" => {
                        pinpoint = true;
                        i += 1;
                    }
                    "--deadline" => {
                        deadline = Some(args[i + 1].parse().unwrap());
                        i += 2;
                    }
                    "--seed" => {
                        wseed = args[i + 1].parse().unwrap_or(0);
                        i += 2;
                    }
                    _ => usage(),
                }
            }
            let check = checks::by_id(id).unwrap_or_else(|| std::process::exit(2));
            let ctx = Ctx { tier, ucd, seed: wseed };
            core::worker_main(check.as_ref(), &ctx, w, n, only, pinpoint, deadline);
        }
        _ => usage(),
    }
}
