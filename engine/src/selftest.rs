//! Model self-validation, run by `./check setup` and `./check selftest`.
//! A failure here is a machinery error (exit 2), never a verdict.

use crate::gen;
use crate::refparse::{self, Dialect, Verdict};
use crate::sem::{Fl, Paths, Sem};
use crate::ucd::Ucd;
use crate::util::{all_strings, FLAG_SUBSETS_IMS};
use std::collections::HashSet;
use std::io::Write;

pub fn run(ucd: &Ucd) -> i32 {
    let mut bad = 0u64;
    // 1. enumeration: counts, injective rendering
    for name in ["K", "K0", "Q", "CL", "G", "GC", "CI", "AN", "U"] {
        let sc = gen::scope(name);
        let mut seen = HashSet::new();
        let max = if name == "Q" { 2 } else { 3 };
        for n in 1..=max {
            for i in 0..sc.count(n) {
                let t = sc.render(&sc.nth(n, i));
                if !seen.insert(t.clone()) {
                    println!("selftest: scope {} renders {:?} twice", name, t);
                    bad += 1;
                }
            }
        }
        println!("selftest: scope {:3} sizes 1..{}: {} distinct texts, rendering injective", name, max, seen.len());
    }
    // 2. parser round trip
    let mut rt = 0u64;
    for name in ["K", "CL", "G", "AN", "CI", "U"] {
        let sc = gen::scope(name);
        for n in 1..=3 {
            for i in 0..sc.count(n) {
                let t = sc.render(&sc.nth(n, i));
                if let Verdict::Valid(p) = refparse::parse(&t, Dialect::XPath, ucd) {
                    let r = refparse::render(&p.ast);
                    match refparse::parse(&r, Dialect::XPath, ucd) {
                        Verdict::Valid(p2) if p2.ast == p.ast => rt += 1,
                        other => {
                            println!("selftest: round trip failed for {:?} -> {:?}: {:?}", t, r, matches!(other, Verdict::Valid(_)));
                            bad += 1;
                        }
                    }
                }
            }
        }
    }
    println!("selftest: parse(render(parse(t))) == parse(t) on {} pattern texts", rt);
    // 3. the two semantics agree
    let mut agree = 0u64;
    for name in ["K", "AN", "CL"] {
        let sc = gen::scope(name);
        let inputs = all_strings(&sc.sigma, 3);
        for n in 1..=3 {
            for i in 0..sc.count(n) {
                let t = sc.render(&sc.nth(n, i));
                let p = match refparse::parse(&t, Dialect::XPath, ucd) {
                    Verdict::Valid(p) => p,
                    _ => continue,
                };
                for flags in FLAG_SUBSETS_IMS {
                    let fl = Fl::parse(flags);
                    for inp in &inputs {
                        let chars: Vec<char> = inp.chars().collect();
                        let sem = Sem { s: &chars, f: fl, ucd };
                        let paths = Paths::new(&chars, fl, ucd);
                        let a = sem.lang_is_match(&p.ast);
                        let first = paths.first_from(&p.ast, 0, p.groups);
                        match first {
                            Ok(f) => {
                                let b = f.is_some();
                                let mut ok = a == b;
                                if let Some((st, en, _)) = f {
                                    ok = ok && sem.lang_leftmost(&p.ast, 0).map(|x| x.0) == Some(st) && sem.ends(&p.ast, st) & (1 << en) != 0;
                                }
                                if ok {
                                    agree += 1;
                                } else {
                                    println!("selftest: set and ordered semantics disagree on {:?} /{} {:?}", t, flags, inp);
                                    bad += 1;
                                }
                            }
                            Err(_) => {}
                        }
                    }
                }
            }
        }
    }
    println!("selftest: set semantics and ordered semantics agree on {} (pattern, flags, input) cases", agree);
    // 4. Perl cross-validation of the ordered semantics (strict clause)
    bad += perl_cross_check(ucd);
    // 5. flag-x stripper basics
    let s: String = refparse::strip_x(&"a b[ c]\\ d\u{c}e".chars().collect::<Vec<_>>()).iter().collect();
    if s != "ab[ c]\\d\u{c}e" {
        println!("selftest: strip_x wrong: {:?}", s);
        bad += 1;
    }
    if bad > 0 {
        println!("MACHINERY ERROR: selftest found {} problems", bad);
        return 2;
    }
    println!("selftest: ok");
    0
}

fn perl_cross_check(ucd: &Ucd) -> u64 {
    let sc = gen::scope("GC");
    let inputs = all_strings(&['a', 'b'], 4);
    let mut lines = String::new();
    let mut n_cases = 0u64;
    for n in 1..=4 {
        for i in 0..sc.count(n) {
            let t = sc.render(&sc.nth(n, i));
            let p = match refparse::parse(&t, Dialect::XPath, ucd) {
                Verdict::Valid(p) => p,
                _ => continue,
            };
            if p.ast.has_nullable_loop() {
                continue;
            }
            for inp in &inputs {
                let chars: Vec<char> = inp.chars().collect();
                let paths = Paths::new(&chars, Fl::default(), ucd);
                let want = match paths.first_from(&p.ast, 0, p.groups) {
                    Ok(Some((st, en, caps))) => {
                        let mut s = format!("{},{}", st, en);
                        for g in 1..=p.groups {
                            match caps[g] {
                                Some((a, b)) => s.push_str(&format!(";{},{}", a, b)),
                                None => s.push_str(";-"),
                            }
                        }
                        s
                    }
                    Ok(None) => "nomatch".to_string(),
                    Err(_) => continue,
                };
                lines.push_str(&format!("{}\t{}\t{}\t{}\n", t, inp, p.groups, want));
                n_cases += 1;
            }
        }
    }
    let script = r#"
my ($n,$bad)=(0,0);
while (my $l = <STDIN>) { chomp $l; my ($re,$in,$g,$want) = split /\t/, $l, -1;
  my $got;
  if ($in =~ /$re/) { $got = "$-[0],$+[0]"; for my $k (1..$g) { $got .= defined($-[$k]) ? ";$-[$k],$+[$k]" : ";-"; } } else { $got = "nomatch"; }
  $n++; if ($got ne $want) { $bad++; print "DIFF $re on '$in': perl $got reference $want\n" if $bad <= 5; } }
print "PERL n=$n bad=$bad\n";
"#;
    let child = std::process::Command::new("perl")
        .arg("-e")
        .arg(script)
        .stdin(std::process::Stdio::piped())
        .stdout(std::process::Stdio::piped())
        .stderr(std::process::Stdio::null())
        .spawn();
    let mut child = match child {
        Ok(c) => c,
        Err(_) => {
            println!("selftest: perl not available, Perl cross-validation skipped ({} cases prepared)", n_cases);
            return 0;
        }
    };
    {
        let mut stdin = child.stdin.take().unwrap();
        let _ = stdin.write_all(lines.as_bytes());
    }
    let out = match child.wait_with_output() {
        Ok(o) => String::from_utf8_lossy(&o.stdout).to_string(),
        Err(_) => return 0,
    };
    let mut bad = 0;
    for l in out.lines() {
        if l.starts_with("DIFF") {
            println!("selftest: {}", l);
        }
        if let Some(rest) = l.strip_prefix("PERL ") {
            println!("selftest: ordered reference vs Perl {} (first match span and every capture span, strict-clause patterns of scope GC <= 4 nodes x inputs <= 4)", rest);
            if !rest.ends_with("bad=0") {
                bad = 1;
            }
        }
    }
    bad
}
