//! Small helpers: JSON emitter, stable hashing, input enumeration.

use std::fmt::Write;

/// A tiny JSON value (enough for evidence / violation files).
#[derive(Clone, Debug)]
pub enum J {
    Null,
    Bool(bool),
    Int(i128),
    Num(f64),
    Str(String),
    Arr(Vec<J>),
    Obj(Vec<(String, J)>),
}

impl J {
    pub fn s(x: impl Into<String>) -> J {
        J::Str(x.into())
    }
    pub fn i(x: impl TryInto<i128>) -> J {
        J::Int(x.try_into().ok().unwrap_or(0))
    }
    pub fn obj(kv: Vec<(&str, J)>) -> J {
        J::Obj(kv.into_iter().map(|(k, v)| (k.to_string(), v)).collect())
    }
    pub fn push(&mut self, k: &str, v: J) {
        if let J::Obj(o) = self {
            o.push((k.to_string(), v));
        }
    }
    pub fn to_string(&self) -> String {
        let mut s = String::new();
        self.write(&mut s);
        s
    }
    pub fn pretty(&self) -> String {
        let mut s = String::new();
        self.write_pretty(&mut s, 0);
        s.push('\n');
        s
    }
    fn write(&self, out: &mut String) {
        match self {
            J::Null => out.push_str("null"),
            J::Bool(b) => out.push_str(if *b { "true" } else { "false" }),
            J::Int(i) => {
                let _ = write!(out, "{}", i);
            }
            J::Num(f) => {
                if f.is_finite() {
                    let _ = write!(out, "{:.3}", f);
                } else {
                    out.push_str("0");
                }
            }
            J::Str(s) => esc(s, out),
            J::Arr(a) => {
                out.push('[');
                for (i, x) in a.iter().enumerate() {
                    if i > 0 {
                        out.push(',');
                    }
                    x.write(out);
                }
                out.push(']');
            }
            J::Obj(o) => {
                out.push('{');
                for (i, (k, v)) in o.iter().enumerate() {
                    if i > 0 {
                        out.push(',');
                    }
                    esc(k, out);
                    out.push(':');
                    v.write(out);
                }
                out.push('}');
            }
        }
    }
    fn write_pretty(&self, out: &mut String, ind: usize) {
        match self {
            J::Arr(a) if !a.is_empty() && a.iter().any(|x| matches!(x, J::Obj(_) | J::Arr(_))) => {
                out.push_str("[\n");
                for (i, x) in a.iter().enumerate() {
                    for _ in 0..ind + 1 {
                        out.push(' ');
                    }
                    x.write_pretty(out, ind + 1);
                    if i + 1 < a.len() {
                        out.push(',');
                    }
                    out.push('\n');
                }
                for _ in 0..ind {
                    out.push(' ');
                }
                out.push(']');
            }
            J::Obj(o) if !o.is_empty() && ind < 3 => {
                out.push_str("{\n");
                for (i, (k, v)) in o.iter().enumerate() {
                    for _ in 0..ind + 1 {
                        out.push(' ');
                    }
                    esc(k, out);
                    out.push_str(": ");
                    v.write_pretty(out, ind + 1);
                    if i + 1 < o.len() {
                        out.push(',');
                    }
                    out.push('\n');
                }
                for _ in 0..ind {
                    out.push(' ');
                }
                out.push('}');
            }
            _ => self.write(out),
        }
    }
}

fn esc(s: &str, out: &mut String) {
    out.push('"');
    for c in s.chars() {
        match c {
            '"' => out.push_str("\\\""),
            '\\' => out.push_str("\\\\"),
            '\n' => out.push_str("\\n"),
            '\r' => out.push_str("\\r"),
            '\t' => out.push_str("\\t"),
            c if (c as u32) < 0x20 || c == '\u{7f}' => {
                let _ = write!(out, "\\u{:04x}", c as u32);
            }
            c => out.push(c),
        }
    }
    out.push('"');
}

/// Minimal JSON string-field extractor for the files this engine itself
/// writes (violation files): returns the decoded value of `"key": "..."`.
pub fn json_get_str(text: &str, key: &str) -> Option<String> {
    let pat = format!("\"{}\"", key);
    let mut from = 0;
    while let Some(ix) = text[from..].find(&pat) {
        let at = from + ix + pat.len();
        let rest = text[at..].trim_start();
        if let Some(rest) = rest.strip_prefix(':') {
            let rest = rest.trim_start();
            if let Some(rest) = rest.strip_prefix('"') {
                return Some(unescape_json(rest));
            }
            return None;
        }
        from = at;
    }
    None
}

fn unescape_json(rest: &str) -> String {
    let mut out = String::new();
    let mut it = rest.chars();
    while let Some(c) = it.next() {
        match c {
            '"' => break,
            '\\' => match it.next() {
                Some('n') => out.push('\n'),
                Some('r') => out.push('\r'),
                Some('t') => out.push('\t'),
                Some('u') => {
                    let h: String = (0..4).filter_map(|_| it.next()).collect();
                    if let Some(ch) = u32::from_str_radix(&h, 16).ok().and_then(char::from_u32) {
                        out.push(ch);
                    }
                }
                Some(x) => out.push(x),
                None => break,
            },
            c => out.push(c),
        }
    }
    out
}

/// Printable form of a string for keys and logs: control and non-ASCII
/// characters as \u{..} so that keys are single-line and unambiguous.
pub fn vis(s: &str) -> String {
    let mut o = String::new();
    for c in s.chars() {
        match c {
            '\n' => o.push_str("\\n"),
            '\r' => o.push_str("\\r"),
            '\t' => o.push_str("\\t"),
            '\\' => o.push_str("\\\\"),
            '|' => o.push_str("\\u{7c}"),
            c if (c as u32) < 0x20 || (c as u32) > 0x7e => {
                let _ = write!(o, "\\u{{{:x}}}", c as u32);
            }
            c => o.push(c),
        }
    }
    o
}

/// Inverse of `vis`.
pub fn unvis(s: &str) -> String {
    let mut o = String::new();
    let cs: Vec<char> = s.chars().collect();
    let mut i = 0;
    while i < cs.len() {
        if cs[i] == '\\' && i + 1 < cs.len() {
            match cs[i + 1] {
                'n' => {
                    o.push('\n');
                    i += 2;
                }
                'r' => {
                    o.push('\r');
                    i += 2;
                }
                't' => {
                    o.push('\t');
                    i += 2;
                }
                '\\' => {
                    o.push('\\');
                    i += 2;
                }
                'u' if i + 2 < cs.len() && cs[i + 2] == '{' => {
                    let mut j = i + 3;
                    let mut h = String::new();
                    while j < cs.len() && cs[j] != '}' {
                        h.push(cs[j]);
                        j += 1;
                    }
                    if let Some(ch) = u32::from_str_radix(&h, 16).ok().and_then(char::from_u32) {
                        o.push(ch);
                    }
                    i = j + 1;
                }
                _ => {
                    o.push('\\');
                    i += 1;
                }
            }
        } else {
            o.push(cs[i]);
            i += 1;
        }
    }
    o
}

/// FNV-1a 64-bit.
pub fn fnv(s: &str) -> u64 {
    let mut h: u64 = 0xcbf29ce484222325;
    for b in s.as_bytes() {
        h ^= *b as u64;
        h = h.wrapping_mul(0x100000001b3);
    }
    h
}

/// All strings over `alphabet` of length 0..=maxlen, shortest first.
pub fn all_strings(alphabet: &[char], maxlen: usize) -> Vec<String> {
    let mut out = vec![String::new()];
    let mut frontier = vec![String::new()];
    for _ in 0..maxlen {
        let mut nf = Vec::with_capacity(frontier.len() * alphabet.len());
        for w in &frontier {
            for c in alphabet {
                let mut x = w.clone();
                x.push(*c);
                nf.push(x);
            }
        }
        out.extend(nf.iter().cloned());
        frontier = nf;
    }
    out
}

/// Number of strings of length exactly `len` over an alphabet of size `k`.
pub fn pow(k: u64, len: u32) -> u64 {
    k.pow(len)
}

/// The `idx`-th string of exactly `len` tokens over `alphabet` (base-k digits,
/// most significant first).
pub fn nth_token_string(alphabet: &[&str], len: usize, mut idx: u64) -> Vec<usize> {
    let k = alphabet.len() as u64;
    let mut digits = vec![0usize; len];
    for i in (0..len).rev() {
        digits[i] = (idx % k) as usize;
        idx /= k;
    }
    digits
}

/// The flag subsets of "ims" as strings, in a fixed order.
pub const FLAG_SUBSETS_IMS: [&str; 8] = ["", "i", "m", "s", "im", "is", "ms", "ims"];
