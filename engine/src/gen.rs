//! Indexable exhaustive enumeration of pattern ASTs ("AST scopes") and of
//! token strings.
//!
//! An AST scope fixes leaf tokens, unary suffix operators (quantifier
//! spellings), whether capturing groups are a constructor, and the two binary
//! constructors (concatenation, alternation). Size = number of AST nodes.
//! Concatenation and alternation are generated right-nested only, so rendering
//! is injective. `count(n)` is computed by dynamic programming and
//! `nth(n, k)` unranks the k-th AST of size n, so a chunk is an index range.

#[derive(Clone, Debug, PartialEq, Eq)]
pub enum G {
    Leaf(usize),
    Un(usize, Box<G>),
    Cap(Box<G>),
    Cat(Box<G>, Box<G>),
    Alt(Box<G>, Box<G>),
}

#[derive(Clone, Copy, PartialEq, Eq, Debug)]
enum Excl {
    None,
    Cat,
    Alt,
}

pub struct Scope {
    pub name: &'static str,
    pub leaves: Vec<&'static str>,
    pub unary: Vec<&'static str>,
    pub cap: bool,
    /// Input alphabet used with this scope.
    pub sigma: Vec<char>,
    /// Text put around every rendered pattern (derived families such as `^(?:P)`).
    pub prefix: &'static str,
    pub suffix: &'static str,
    total: Vec<u64>,
    catroot: Vec<u64>,
    altroot: Vec<u64>,
}

pub const MAXSIZE: usize = 9;

impl Scope {
    pub fn new(
        name: &'static str,
        leaves: &[&'static str],
        unary: &[&'static str],
        cap: bool,
        sigma: &[char],
    ) -> Scope {
        let mut s = Scope {
            name,
            leaves: leaves.to_vec(),
            unary: unary.to_vec(),
            cap,
            sigma: sigma.to_vec(),
            prefix: "",
            suffix: "",
            total: vec![0; MAXSIZE + 1],
            catroot: vec![0; MAXSIZE + 1],
            altroot: vec![0; MAXSIZE + 1],
        };
        s.total[1] = s.leaves.len() as u64;
        for n in 2..=MAXSIZE {
            let un = (s.unary.len() as u64 + s.cap as u64).saturating_mul(s.total[n - 1]);
            let mut cat = 0u64;
            let mut alt = 0u64;
            for k in 1..=n.saturating_sub(2) {
                let l = n - 1 - k;
                cat = cat.saturating_add((s.total[k] - s.catroot[k]).saturating_mul(s.total[l]));
                alt = alt.saturating_add((s.total[k] - s.altroot[k]).saturating_mul(s.total[l]));
            }
            s.catroot[n] = cat;
            s.altroot[n] = alt;
            s.total[n] = un.saturating_add(cat).saturating_add(alt);
        }
        s
    }

    /// Number of canonical ASTs of exactly `n` nodes.
    pub fn count(&self, n: usize) -> u64 {
        self.total[n]
    }

    /// Number of canonical ASTs with 1..=n nodes.
    pub fn count_upto(&self, n: usize) -> u64 {
        (1..=n).map(|k| self.total[k]).sum()
    }

    /// The `idx`-th AST of size `n`.
    pub fn nth(&self, n: usize, idx: u64) -> G {
        self.unrank(n, idx, Excl::None)
    }

    /// Map a global index over sizes 1..=max (sizes in ascending order) to
    /// (size, index within size).
    pub fn locate(&self, mut g: u64) -> (usize, u64) {
        for n in 1..=MAXSIZE {
            if g < self.total[n] {
                return (n, g);
            }
            g -= self.total[n];
        }
        panic!("index out of range");
    }

    fn count_excl(&self, n: usize, e: Excl) -> u64 {
        match e {
            Excl::None => self.total[n],
            Excl::Cat => self.total[n] - self.catroot[n],
            Excl::Alt => self.total[n] - self.altroot[n],
        }
    }

    fn unrank(&self, n: usize, mut idx: u64, e: Excl) -> G {
        assert!(idx < self.count_excl(n, e), "unrank out of range");
        if n == 1 {
            return G::Leaf(idx as usize);
        }
        let sub = self.total[n - 1];
        let un = self.unary.len() as u64 * sub;
        if idx < un {
            return G::Un((idx / sub) as usize, Box::new(self.unrank(n - 1, idx % sub, Excl::None)));
        }
        idx -= un;
        if self.cap {
            if idx < sub {
                return G::Cap(Box::new(self.unrank(n - 1, idx, Excl::None)));
            }
            idx -= sub;
        }
        if e != Excl::Cat {
            for k in 1..=n - 2 {
                let l = n - 1 - k;
                let block = self.count_excl(k, Excl::Cat) * self.total[l];
                if idx < block {
                    let a = self.unrank(k, idx / self.total[l], Excl::Cat);
                    let b = self.unrank(l, idx % self.total[l], Excl::None);
                    return G::Cat(Box::new(a), Box::new(b));
                }
                idx -= block;
            }
        }
        if e != Excl::Alt {
            for k in 1..=n - 2 {
                let l = n - 1 - k;
                let block = self.count_excl(k, Excl::Alt) * self.total[l];
                if idx < block {
                    let a = self.unrank(k, idx / self.total[l], Excl::Alt);
                    let b = self.unrank(l, idx % self.total[l], Excl::None);
                    return G::Alt(Box::new(a), Box::new(b));
                }
                idx -= block;
            }
        }
        unreachable!("unrank fell through");
    }

    /// Render with the minimal `(?:...)` needed for precedence.
    /// prec: 0 = alternation context, 1 = sequence context, 2 = quantifier operand.
    pub fn render(&self, g: &G) -> String {
        let mut s = String::from(self.prefix);
        self.render_into(g, 0, &mut s);
        s.push_str(self.suffix);
        s
    }
    pub fn wrapped(mut self, name: &'static str, prefix: &'static str, suffix: &'static str, sigma: &[char]) -> Scope {
        self.name = name;
        self.prefix = prefix;
        self.suffix = suffix;
        self.sigma = sigma.to_vec();
        self
    }

    fn render_into(&self, g: &G, prec: u8, out: &mut String) {
        match g {
            G::Leaf(i) => out.push_str(self.leaves[*i]),
            G::Cap(a) => {
                out.push('(');
                self.render_into(a, 0, out);
                out.push(')');
            }
            G::Cat(a, b) => {
                if prec > 1 {
                    out.push_str("(?:");
                }
                self.render_into(a, 1, out);
                self.render_into(b, 1, out);
                if prec > 1 {
                    out.push(')');
                }
            }
            G::Alt(a, b) => {
                if prec > 0 {
                    out.push_str("(?:");
                }
                self.render_into(a, 1, out);
                out.push('|');
                self.render_into(b, 0, out);
                if prec > 0 {
                    out.push(')');
                }
            }
            G::Un(u, a) => {
                match **a {
                    G::Un(..) => {
                        out.push_str("(?:");
                        self.render_into(a, 0, out);
                        out.push(')');
                    }
                    // a composite leaf that is not a single atom is grouped, so
                    // that the quantifier applies to the whole leaf
                    G::Leaf(i) if !leaf_is_atomic(self.leaves[i]) => {
                        out.push_str("(?:");
                        out.push_str(self.leaves[i]);
                        out.push(')');
                    }
                    _ => self.render_into(a, 2, out),
                }
                out.push_str(self.unary[*u]);
            }
        }
    }
}

/// Is a leaf text a single atom (one character, one escape, one class, one group)?
pub fn leaf_is_atomic(t: &str) -> bool {
    let cs: Vec<char> = t.chars().collect();
    if cs.len() == 1 {
        return true;
    }
    if cs[0] == '\\' {
        return cs.len() == 2 || (cs[1] == 'p' || cs[1] == 'P') && cs[cs.len() - 1] == '}' && t.matches('}').count() == 1;
    }
    if cs[0] == '[' && cs[cs.len() - 1] == ']' {
        // one class expression: brackets balance only at the end
        let mut depth = 0;
        for (k, c) in cs.iter().enumerate() {
            if *c == '[' {
                depth += 1;
            } else if *c == ']' {
                depth -= 1;
                if depth == 0 && k + 1 != cs.len() {
                    return false;
                }
            }
        }
        return true;
    }
    if cs[0] == '(' && cs[cs.len() - 1] == ')' {
        let mut depth = 0;
        for (k, c) in cs.iter().enumerate() {
            if *c == '(' {
                depth += 1;
            } else if *c == ')' {
                depth -= 1;
                if depth == 0 && k + 1 != cs.len() {
                    return false;
                }
            }
        }
        return true;
    }
    false
}

// Note on `Alt` rendering: the left operand is rendered in sequence context
// (prec 1) so that a left-nested alternative would be parenthesised, which
// cannot occur (canonical form excludes Alt as left operand of Alt), and a Cat
// on the left needs no parentheses in either context below 2.

pub const Q_KERNEL: [&str; 9] = ["*", "+", "?", "*?", "+?", "??", "{2}", "{1,2}", "{2,}?"];

pub fn scope(name: &str) -> Scope {
    match name {
        // kernel: anchors, dot, two letters, every quantifier kind, groups
        "K" => Scope::new("K", &["a", "b", ".", "^", "$"], &Q_KERNEL, true, &['a', 'b', '\n']),
        // kernel without capturing groups (language-level checks)
        "K0" => Scope::new("K0", &["a", "b", ".", "^", "$"], &Q_KERNEL, false, &['a', 'b', '\n']),
        // the same under another name: layers with long inputs
        "KL" => Scope::new("KL", &["a", "b", ".", "^", "$"], &Q_KERNEL, false, &['a', 'b', '\n']),
        // quantifier spellings
        "Q" => Scope::new(
            "Q",
            &["a", "b"],
            &[
                "{0}", "{0,0}", "{1}", "{0,1}", "{1,1}", "{2}", "{0,2}", "{1,2}", "{2,3}", "{0,}", "{1,}", "{2,}", "*",
                "+", "?", "{0}?", "{1}?", "{0,1}?", "{2}?", "{0,2}?", "{1,2}?", "{2,3}?", "{0,}?", "{1,}?", "{2,}?",
                "*?", "+?", "??",
            ],
            false,
            &['a', 'b'],
        ),
        // classes
        "CL" => Scope::new(
            "CL",
            &["a", "b", "1", ".", "[ab]", "[^a]", "[a-c]", "\\d", "\\D", "[\\d-[1]]", "[a-c-[b]]"],
            &["*", "+", "?", "*?"],
            false,
            &['a', 'b', 'c', '1', '\n'],
        ),
        // groups and back-references
        "G" => Scope::new("G", &["a", "b", "\\1", "\\2"], &["*", "+", "?", "*?", "{2}"], true, &['a', 'b']),
        // groups without back-references (captures)
        "GC" => Scope::new("GC", &["a", "b", "."], &["*", "+", "?", "*?", "+?", "??", "{2}", "{1,2}"], true, &['a', 'b']),
        // line-anchored derivation of GC: `^(?:P)` is meant for flag m on multi-line
        // inputs, so that one scan reports several matches through the start-anchor path
        "GCM" => scope("GC").wrapped("GCM", "^(?:", ")", &['a', 'b', '\n']),
        "GCE" => scope("GC").wrapped("GCE", "(?:", ")$", &['a', 'b', '\n']),
        // quantifiers over alternations with possibly-empty / zero-width / overlapping
        // branches (composite leaves reach shapes that would need 7-9 kernel nodes)
        "ALT" => Scope::new(
            "ALT",
            &["a", "b", "(?:a|b?)", "(?:a?|b)", "(?:ab|a?)", "(?:a|ab)", "(?:a|)", "(?:|a)", "(?:^|a)", "(?:a|$)", "(a)", "(a|b?)", "(?:ab)", "(?:^a?)", "(?:a?$)", "(?:^$)", "(?:ab|a|bb)"],
            &["*", "+", "?", "*?", "+?", "??", "{2}", "{1,2}", "{2,}?", "{0,2}", "{2,3}"],
            false,
            &['a', 'b'],
        ),
        // quantified capturing groups side by side, with a neutral input character so
        // that attempts fail after a group was set (capture state across attempts)
        "CAPQ" => Scope::new(
            "CAPQ",
            &["(a)", "(b)", "a", "b", "(a|b)", "((a)b)"],
            &["*", "+", "?", "{2}", "*?"],
            false,
            &['a', 'b', 'c'],
        ),
        // reluctant quantifiers over alternatives of which only one captures; a counted
        // group whose body ends in an optional capture
        "CAPR" => Scope::new("CAPR", &["(?:(a)|bc)", "(?:(a)|b)", "(a)", "a", "b", "c", "(?:a(b)?)"], &["+?", "*?", "??", "{2,}?", "{2}"], false, &['a', 'b', 'c']),
        // optional / alternative groups whose longer path is entered and abandoned, empty
        // alternatives that are whole quantified groups, counted alternations that need
        // empty iterations at the end, reluctant quantifiers with a finite maximum
        "OPTG" => Scope::new(
            "OPTG",
            &["a", "b", "c", "(?:bb(c))?", "(?:ab(c))?", "(?:(ab){2}|a)", "(?:c|(?:ab|c)*)", "(?:c|(?:ab?)?)", "(?:a|ab|$){3}", "(?:a|ab|$){2}", "(?:a|ab)??", "(?:a|ab){2}?"],
            &[],
            false,
            &['a', 'b', 'c', 'd'],
        ),
        // alternations with an empty branch in first, middle or last position (its priority)
        "EMPB" => Scope::new("EMPB", &["b", "a", "a?", "(?:|a)", "(?:a|)", "(?:|a|b)", "(?:a||b)", "(?:()|a)"], &[], false, &['a', 'b']),
        // counted repeats of bodies that are empty only at a line boundary, under flag m
        "ALTM" => Scope::new("ALTM", &["a", "b", "(?:^|a)", "(?:a|$)", "\\n"], &["{2}", "{3}", "?"], false, &['a', 'b', '\n']),
        // line-anchored terms that consume newlines: several matches on consecutive lines
        "ANL" => Scope::new("ANL", &["(?:^a)", "a", "\\n", "^", "(?:a$)", ".", "[^b]"], &["?", "*"], false, &['a', '\n', 'b']),
        // character classes inside capturing groups (first-character filters derived
        // through a leading group)
        "CLG" => Scope::new("CLG", &["[ab]", "[cd]", "\\d", "a"], &["?", "*", "+"], true, &['a', 'b', 'c', 'd', '1']),
        // counted quantifiers with narrow ranges from three up, nested in a quantified group
        "QN" => Scope::new("QN", &["a", "[ab]"], &["{3,4}", "{4,5}", "{2,3}", "+", "{1,2}", "{2,}", "*"], false, &['a']),
        "QNA" => scope("QN").wrapped("QNA", "^(?:", ")$", &['a']),
        // back-references to groups that are optional, possibly empty, inside a
        // repetition or in a later alternative (composite leaves)
        "BR" => Scope::new(
            "BR",
            &["a", "b", "\\1", "(a)", "(a?)", "(a*)", "(a|b)", "(?:(a?)b)", "(?:b|(a))", "(?:(a)|b)", "(a|ab|b)"],
            &["*", "+", "?", "*?", "??", "{2}"],
            false,
            &['a', 'b'],
        ),
        // nesting family behind a non-capturing group (flag x whitespace in `( ?:`)
        "NESTX" => scope("NEST").wrapped("NESTX", "(?:c*)", "", &['a', 'b', 'c']),
        // fixed-length multi-character bodies under counted quantifiers
        "FX" => Scope::new("FX", &["a", "b", "(?:ab)", "(?:ba)"], &["{2}", "{1,2}", "{2,3}", "{2,}", "{2,}?", "*", "+"], false, &['a', 'b']),
        // the same behind a start anchor (positional preconditions after `^`)
        "FXA" => scope("FX").wrapped("FXA", "^", "", &['a', 'b']),
        // capturing groups inside alternations that are tried, abandoned and replaced
        // by a later branch (no quantifiers: every capture question is about rollback)
        "ALTC" => Scope::new("ALTC", &["a", "b", "(a)", "(?:ab)", "(ab)", "(a|ab)", "(a)b", "abb"], &[], true, &['a', 'b']),
        // a required iteration of an enclosing repeat that must be empty and
        // contains a min-0 variable-length repeat (zero-length-match history)
        "HIST" => Scope::new("HIST", &["(?:(?:a|bb)*$)", "(?:(?:a|bb)*)", "(?:^(?:a|bb)*)", "b"], &["{2}", "{2,3}", "{1,2}", "+"], false, &['a', 'b']),
        // characters beyond the first hundred code points of the big classes (the
        // disjointness test gives up after 100 characters), next to those classes
        "HI" => Scope::new("HI", &["z", "\u{e9}", ".", "[^a]", "\\S", "[x-z]", "\\P{Lu}"], &["*", "+", "?", "{1,2}", "*?"], false, &['z', '\u{e9}', 'x']),
        // top-level alternation with an empty last / first branch
        // the same region of the alphabet with counted quantifiers from zero and capturing
        // groups (rewrite laws r{0,m} and capturing -> non-capturing)
        "HIQ" => Scope::new("HIQ", &["z", "\u{e9}", ".", "[^a]", "\\S"], &["{0,2}", "{1,2}", "*", "?"], true, &['z', '\u{e9}', 'x']),
        "K0E" => scope("K0").wrapped("K0E", "", "|", &['a', 'b', '\n']),
        "K0S" => scope("K0").wrapped("K0S", "|", "", &['a', 'b', '\n']),
        // small alternation scope for the rewrite laws
        "ALTS" => Scope::new("ALTS", &["a", "b", "(?:a|$)", "(?:^|a)", "(?:a|b?)", "(?:ab)"], &["*", "+", "?", "{1,2}", "{0,2}"], false, &['a', 'b']),
        // a repeat before a group whose body starts with an optional variable-length term
        "SEQO" => Scope::new("SEQO", &["a", "[ab]", "(?:(?:bb|b)?a)", "(?:b?a)"], &["*", "+", "?", "{1,2}"], false, &['a', 'b']),
        // back-references to a third group captured on abandoned paths, after two groups
        // that always participate (possibly empty); alternations without groups before
        // optional groups
        "BR3B" => Scope::new(
            "BR3B",
            &["a", "c", "\\3", "(b)", "(b)??", "(b)?", "(?:a(b)c|ab)", "(?:(b)|a)", "(?:a|ab)", "(?:c|(b))", "(b)??\\3", "(?:(b)|b)", "(?:(b)|a\\3)+", "(?:(b)a)?"],
            &[],
            false,
            &['a', 'b', 'c'],
        ),
        // a back-reference inside a group body beside possibly-empty terms, under every
        // quantifier (the static analyses of such a body: can it be empty, how long is it)
        "BRN" => Scope::new("BRN", &["(a)", "(a?)", "\\1", "b", "b?", "(?:\\1b?)", "(?:b?\\1)", "(?:\\1|b)"], &["?", "*", "+", "{2}"], false, &['a', 'b']),
        "BR3" => scope("BR3B").wrapped("BR3", "(x?)(y?)", "", &['a', 'b', 'c']),
        // alternatives that end at the same position several times before one that ends elsewhere
        "DUP" => Scope::new(
            "DUP",
            &["c", "(?:a|a|a|a|a|ab)", "(?:a|a|a|a|ab)", "(?:ab|a|a|a|a|a)"],
            &["+", "*", "+?"],
            false,
            &['a', 'b', 'c'],
        ),
        // literal prefixes that overlap themselves (prefix-scan shortcut), longer inputs
        "LP" => Scope::new("LP", &["a", "b", "aa", "ab", "aab", "aba", "abab"], &["*", "?", "+"], false, &['a', 'b']),
        // literal prefixes that mix the case of one letter (a prefix scan that must stay
        // case-blind under flag i, also when it skips ahead after a partial hit)
        "LPI" => Scope::new("LPI", &["a", "A", "b", "aA", "Ab", "aAb", "AaB", "abA"], &["*", "?"], false, &['a', 'A', 'b']),
        // group nesting: capturing groups around / beside possibly-empty terms
        "NEST" => Scope::new("NEST", &["a", "b?", "c*"], &[], true, &['a', 'b', 'c']),
        // alternations of short literals in every order (ordered choice across branches of
        // different length), no quantifiers
        "ALT3" => Scope::new("ALT3", &["a", "b", "ab", "ba", "bb"], &[], false, &['a', 'b']),
        // case: inputs of length 3 over a small alphabet (runs that mix case)
        "CI2" => Scope::new("CI2", &["a", "A", "b", "[a-b]"], &["*", "+", "?"], true, &['a', 'A', 'b', 'B']),
        "CI2A" => scope("CI2").wrapped("CI2A", "^(?:", ")$", &['a', 'A', 'b', 'B']),
        // anchors and the dot together with flag i (line starts found by a scan that must
        // stay case-blind)
        "ANI" => Scope::new("ANI", &["a", "A", "^", "$", ".", "\\n"], &["?", "*"], false, &['a', 'A', '\n', 'x']),
        // an optional or repeated leading group that contains an anchor
        "ANQ" => Scope::new("ANQ", &["a", "b", "(?:^a)", "(?:^a?)", "(^a)", "(?:a$)", "(?:^|a)", "(?:^-)"], &["?", "*", "+"], false, &['a', 'b', '\n', '-']),
        // negated groups with a subtraction (the order of negation and subtraction)
        "CLN" => Scope::new("CLN", &["a", "b", "[^a-[b]]", "[^a-c-[b]]", "[ab-[b]]", "[^\\d-[1]]", "[^a-[^b]]"], &["*", "+", "?"], false, &['a', 'b', 'c', '1']),
        // anchors beside capturing groups in alternations: two matches with the same text
        // but different group participation
        "ANCG" => Scope::new("ANCG", &["^", "$", "(a)", "a", "(b)", "b"], &[], false, &['a', 'b', '\n']),
        // a non-capturing group between two capturing levels, possibly-empty inner groups
        "NESTN" => Scope::new("NESTN", &["a", "(b*)", "(?:(b*))", "(?:(b?)c?)", "(?:a|(b*))", "(?:(c?))"], &[], true, &['a', 'b', 'c']),
        // terms that vanish ({0}) or are zero-width under a quantifier, grouped and alternated
        "Z" => Scope::new("Z", &["a", "b", "^", "$"], &["{0}", "{0,0}", "*", "?", "{0}?"], true, &['a', 'b']),
        // case
        "CI" => Scope::new(
            "CI",
            &["a", "A", "b", "\u{e9}", "\u{c9}", "1", "[a-b]", "[^A]", "[A-[b]]", "\\p{Lu}"],
            &["*", "+", "?"],
            false,
            &['a', 'A', 'b', 'B', '\u{e9}', '\u{c9}', '1', '\n', '\u{10400}', '\u{10428}'],
        ),
        // anchors
        "AN" => Scope::new(
            "AN",
            &["a", ".", "^", "$", "\\n", "[^a]"],
            &["*", "+", "?", "*?", "{2}"],
            true,
            &['a', '\n', '\r'],
        ),
        // anchors with non-ASCII and supplementary-plane characters in the input
        // (offsets are in characters, not bytes or UTF-16 units)
        "ANU" => Scope::new("ANU", &["a", ".", "^", "$", "\\n", "[^a]"], &["*", "+", "?"], false, &['a', '\n', '\u{e9}', '\u{1F600}']),
        // astral / combining
        "U" => Scope::new(
            "U",
            &["a", "\u{1F600}", ".", "[^a]"],
            &["*", "+", "?"],
            true,
            &['a', '\u{1F600}', 'e', '\u{301}'],
        ),
        _ => panic!("unknown scope {}", name),
    }
}

/// Token alphabets for parser-level exploration.
pub const T_FULL: [&str; 41] = [
    "a", "b", "1", ",", "-", "^", "$", ".", "|", "(", ")", "(?:", "[", "[^", "]", "-[", "{", "}", "{2}", "{2,}", "{1,2}",
    "{2,1}", "?", "*", "+", "\\", "\\\\", "\\n", "\\-", "\\$", "\\1", "\\2", "\\d", "\\p{L}", "\\P{Lu}", "\\p{IsGreek}",
    "\\p{Foo}", "\\p{IsFoo}", "\\q", "{18446744073709551616}", "{9223372036854775807}",
];

pub const T_CORE: [&str; 20] = [
    "a", "-", "^", "$", ".", "|", "(", ")", "(?:", "[", "[^", "]", "-[", "{2}", "?", "*", "\\", "\\1", "\\d", "1",
];

/// Non-ASCII characters next to the metacharacters that give them a role
/// (class member, range end, escape operand, quantifier operand).
pub const T_UNI: [&str; 20] = [
    "\u{e9}", "\u{1F600}", "\u{301}", "\u{0}", "\u{85}", "\u{2028}", "\u{FFFF}", "\u{10FFFF}", "\u{130}", "\u{df}", "[", "]", "-", "\\", "(", ")", "^", "*", "{2}", "|",
];

/// Counted-quantifier syntax: every truncation and permutation of `a{1,2}` (also
/// under flag x, with blanks).
pub const T_QUANT: [&str; 11] = ["a", "{", "}", ",", "1", "2", "0", "?", " ", "+", "-"];

/// Group syntax around back-references: capturing and non-capturing groups,
/// references to closed, open and later groups.
pub const T_GROUP: [&str; 9] = ["(", "(?:", ")", "a", "\\1", "\\2", "|", "*", "{0}"];

/// Class syntax after an escaped backslash (whitespace preprocessor of flag x).
pub const T_XCLS: [&str; 12] = ["a", "b", "\\\\", "\\[", "\\]", "[", "]", "[^", "-[", "(", ")", "?"];

/// Category and block escapes inside and outside character groups (whitespace
/// between the braces is never layout).
pub const T_XESC: [&str; 11] = ["[", "]", "[^", "-[", "\\p{L}", "\\P{Lu}", "\\p{IsGreek}", "a", "\\d", "(", ")"];

/// Class syntax: ranges whose ends are escapes, hyphens in every position, subtraction.
pub const T_CLS: [&str; 9] = ["[", "[^", "]", "-", "-[", "a", "b", "\\d", "\\-"];

/// Redundant spellings of literals next to quantified terms: `a{1}` and `(?:a)` are `a`.
pub const T_SPELL: [&str; 7] = ["a{1}", "(?:a)", "a", "d*", "d", "d+", "(?:d){1}"];

pub fn tokens_to_string(alphabet: &[&str], digits: &[usize]) -> String {
    let mut s = String::new();
    for d in digits {
        s.push_str(alphabet[*d]);
    }
    s
}
