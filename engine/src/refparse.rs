//! Reference recogniser for the XPath 3.1 / XSD 1.1 regular-expression
//! grammar: XSD 1.1 part 2 appendix G plus the F&O 3.1 section 5.6.1
//! extensions. Three-valued: where the specification prose is genuinely
//! ambiguous (or an implementation limit is legitimate) the verdict is
//! `Unclear` and the string is never judged.
//!
//! Shares no code with regexml.

use crate::ucd::Ucd;

#[derive(Clone, Debug, PartialEq, Eq)]
pub enum Ast {
    Empty,
    Lit(char),
    Dot,
    Bol,
    Eol,
    Class(ClassExpr),
    /// Multi-character escape or category escape outside a class.
    Esc(Esc),
    Seq(Vec<Ast>),
    Alt(Vec<Ast>),
    Rep(Box<Ast>, u32, Option<u32>, bool),
    Group(usize, Box<Ast>),
    NonCap(Box<Ast>),
    BackRef(usize),
}

#[derive(Clone, Debug, PartialEq, Eq)]
pub struct Esc {
    /// One of s S i I c C d D w W p P
    pub kind: char,
    /// Category or block name (with the `Is` prefix) for p / P.
    pub name: String,
}

#[derive(Clone, Debug, PartialEq, Eq)]
pub struct ClassExpr {
    pub neg: bool,
    pub parts: Vec<Part>,
    pub sub: Option<Box<ClassExpr>>,
}

#[derive(Clone, Debug, PartialEq, Eq)]
pub enum Part {
    Ch(char),
    Range(char, char),
    Esc(Esc),
}

#[derive(Clone, Debug, PartialEq, Eq)]
pub enum Verdict {
    Valid(Parsed),
    Invalid(&'static str),
    Unclear(&'static str),
}

#[derive(Clone, Debug, PartialEq, Eq)]
pub struct Parsed {
    pub ast: Ast,
    pub groups: usize,
    /// parent[g] = number of the capturing group that directly encloses group g (0 = none)
    pub parent: Vec<usize>,
}

#[derive(Clone, Copy, PartialEq, Eq, Debug)]
pub enum Dialect {
    XPath,
    Xsd,
}

enum E {
    Inv(&'static str),
    Unc(&'static str),
}
type R<T> = Result<T, E>;

struct P<'a> {
    s: &'a [char],
    i: usize,
    d: Dialect,
    opened: usize,
    closed: Vec<bool>,
    parent: Vec<usize>,
    stack: Vec<usize>,
    ucd: &'a Ucd,
}

pub const CATS: &[&str] = &[
    "L", "Lu", "Ll", "Lt", "Lm", "Lo", "M", "Mn", "Mc", "Me", "N", "Nd", "Nl", "No", "P", "Pc", "Pd", "Ps", "Pe", "Pi",
    "Pf", "Po", "Z", "Zs", "Zl", "Zp", "S", "Sm", "Sc", "Sk", "So", "C", "Cc", "Cf", "Co", "Cn",
];

/// The whitespace stripping of flag x exactly as the property words it:
/// delete U+0009, U+000A, U+000D, U+0020 outside character class expressions.
/// Returns None when the bracket structure makes "inside a class" ill-defined
/// (unbalanced brackets): then both spellings are rejected anyway or the case
/// is skipped by the caller.
pub fn strip_x(p: &[char]) -> Vec<char> {
    let mut out = Vec::new();
    let mut depth = 0i32;
    let mut i = 0;
    while i < p.len() {
        let c = p[i];
        if c == '\\' {
            out.push(c);
            i += 1;
            // whitespace directly after a backslash outside a class is still
            // pattern whitespace and is deleted
            if depth == 0 {
                while i < p.len() && matches!(p[i], '\t' | '\n' | '\r' | ' ') {
                    i += 1;
                }
            }
            if i < p.len() {
                out.push(p[i]);
                i += 1;
            }
            continue;
        }
        if c == '[' {
            depth += 1;
            out.push(c);
        } else if c == ']' {
            if depth > 0 {
                depth -= 1;
            }
            out.push(c);
        } else if depth == 0 && matches!(c, '\t' | '\n' | '\r' | ' ') {
        } else {
            out.push(c);
        }
        i += 1;
    }
    out
}

pub fn parse(text: &str, d: Dialect, ucd: &Ucd) -> Verdict {
    let chars: Vec<char> = text.chars().collect();
    parse_chars(&chars, d, ucd)
}

pub fn parse_chars(text: &[char], d: Dialect, ucd: &Ucd) -> Verdict {
    let mut p = P {
        s: text,
        i: 0,
        d,
        opened: 0,
        closed: vec![],
        parent: vec![0],
        stack: vec![0],
        ucd,
    };
    match p.regexp() {
        Ok(a) => {
            if p.i == p.s.len() {
                Verdict::Valid(Parsed {
                    ast: a,
                    groups: p.opened,
                    parent: p.parent,
                })
            } else if p.s[p.i] == ')' {
                Verdict::Invalid("unbalanced )")
            } else {
                Verdict::Invalid("trailing input")
            }
        }
        Err(E::Inv(m)) => Verdict::Invalid(m),
        Err(E::Unc(m)) => Verdict::Unclear(m),
    }
}

impl<'a> P<'a> {
    fn peek(&self) -> Option<char> {
        self.s.get(self.i).copied()
    }

    fn regexp(&mut self) -> R<Ast> {
        let mut bs = vec![self.branch()?];
        while self.peek() == Some('|') {
            self.i += 1;
            bs.push(self.branch()?);
        }
        Ok(if bs.len() == 1 { bs.pop().unwrap() } else { Ast::Alt(bs) })
    }

    fn branch(&mut self) -> R<Ast> {
        let mut ps = vec![];
        while let Some(c) = self.peek() {
            if c == '|' || c == ')' {
                break;
            }
            ps.push(self.piece()?);
        }
        Ok(match ps.len() {
            0 => Ast::Empty,
            1 => ps.pop().unwrap(),
            _ => Ast::Seq(ps),
        })
    }

    fn piece(&mut self) -> R<Ast> {
        let a = self.atom()?;
        let (min, max) = match self.peek() {
            Some('?') => {
                self.i += 1;
                (0, Some(1))
            }
            Some('*') => {
                self.i += 1;
                (0, None)
            }
            Some('+') => {
                self.i += 1;
                (1, None)
            }
            Some('{') => {
                self.i += 1;
                self.quantity()?
            }
            _ => return Ok(a),
        };
        let mut greedy = true;
        if self.peek() == Some('?') {
            if self.d == Dialect::Xsd {
                return Err(E::Inv("reluctant quantifier in XSD"));
            }
            self.i += 1;
            greedy = false;
        }
        Ok(Ast::Rep(Box::new(a), min, max, greedy))
    }

    fn number(&mut self) -> R<u32> {
        let st = self.i;
        while self.peek().map_or(false, |c| c.is_ascii_digit()) {
            self.i += 1;
        }
        if st == self.i {
            return Err(E::Inv("malformed quantity"));
        }
        if self.i - st > 9 {
            return Err(E::Unc("very large quantifier bound"));
        }
        Ok(self.s[st..self.i].iter().collect::<String>().parse().unwrap())
    }

    fn quantity(&mut self) -> R<(u32, Option<u32>)> {
        let n = self.number()?;
        match self.peek() {
            Some('}') => {
                self.i += 1;
                Ok((n, Some(n)))
            }
            Some(',') => {
                self.i += 1;
                if self.peek() == Some('}') {
                    self.i += 1;
                    return Ok((n, None));
                }
                let m = self.number()?;
                if self.peek() != Some('}') {
                    return Err(E::Inv("malformed quantity"));
                }
                self.i += 1;
                if n > m {
                    return Err(E::Inv("quantity min > max"));
                }
                Ok((n, Some(m)))
            }
            _ => Err(E::Inv("malformed quantity")),
        }
    }

    fn atom(&mut self) -> R<Ast> {
        let c = self.peek().unwrap();
        match c {
            '(' => {
                self.i += 1;
                if self.peek() == Some('?') {
                    if self.s.get(self.i + 1) == Some(&':') && self.d == Dialect::XPath {
                        self.i += 2;
                        let r = self.regexp()?;
                        if self.peek() != Some(')') {
                            return Err(E::Inv("unbalanced ("));
                        }
                        self.i += 1;
                        return Ok(Ast::NonCap(Box::new(r)));
                    }
                    // "(?" otherwise: '?' is a quantifier without operand
                    return Err(E::Inv("quantifier without operand after ("));
                }
                self.opened += 1;
                let n = self.opened;
                self.closed.push(false);
                self.parent.push(*self.stack.last().unwrap());
                self.stack.push(n);
                let r = self.regexp()?;
                if self.peek() != Some(')') {
                    return Err(E::Inv("unbalanced ("));
                }
                self.i += 1;
                self.closed[n - 1] = true;
                self.stack.pop();
                Ok(Ast::Group(n, Box::new(r)))
            }
            '[' => Ok(Ast::Class(self.class_expr()?)),
            '.' => {
                self.i += 1;
                Ok(Ast::Dot)
            }
            '\\' => self.escape_atom(),
            '?' | '*' | '+' | '{' => Err(E::Inv("quantifier without operand")),
            '}' | ']' => Err(E::Inv("unescaped closing bracket")),
            '^' if self.d == Dialect::XPath => {
                self.i += 1;
                Ok(Ast::Bol)
            }
            '$' if self.d == Dialect::XPath => {
                self.i += 1;
                Ok(Ast::Eol)
            }
            c => {
                self.i += 1;
                Ok(Ast::Lit(c))
            }
        }
    }

    fn single_esc(&self, c: char) -> Option<char> {
        match c {
            'n' => Some('\n'),
            'r' => Some('\r'),
            't' => Some('\t'),
            '\\' | '|' | '.' | '?' | '*' | '+' | '(' | ')' | '{' | '}' | '-' | '[' | ']' | '^' => Some(c),
            '$' if self.d == Dialect::XPath => Some('$'),
            _ => None,
        }
    }

    /// At a backslash; if it starts a multi-character or category escape,
    /// consume it and return it.
    fn class_esc(&mut self) -> R<Option<Esc>> {
        let c = match self.s.get(self.i + 1) {
            Some(c) => *c,
            None => return Err(E::Inv("dangling escape")),
        };
        if "sSiIcCdDwW".contains(c) {
            self.i += 2;
            return Ok(Some(Esc {
                kind: c,
                name: String::new(),
            }));
        }
        if c == 'p' || c == 'P' {
            if self.s.get(self.i + 2) != Some(&'{') {
                return Err(E::Inv("malformed category escape"));
            }
            let st = self.i + 3;
            let mut j = st;
            while j < self.s.len() && self.s[j] != '}' {
                j += 1;
            }
            if j >= self.s.len() {
                return Err(E::Inv("malformed category escape"));
            }
            let name: String = self.s[st..j].iter().collect();
            let ok = CATS.contains(&name.as_str()) || (name.starts_with("Is") && self.ucd.known_block(&name[2..]));
            if !ok {
                return Err(E::Inv("unknown category or block"));
            }
            self.i = j + 1;
            return Ok(Some(Esc { kind: c, name }));
        }
        Ok(None)
    }

    fn escape_atom(&mut self) -> R<Ast> {
        if let Some(t) = self.class_esc()? {
            return Ok(Ast::Esc(t));
        }
        let c = self.s[self.i + 1];
        if let Some(ch) = self.single_esc(c) {
            self.i += 2;
            return Ok(Ast::Lit(ch));
        }
        if c.is_ascii_digit() && c != '0' && self.d == Dialect::XPath {
            let mut n = c as usize - '0' as usize;
            self.i += 2;
            while let Some(dg) = self.peek().and_then(|x| x.to_digit(10)) {
                let m = n * 10 + dg as usize;
                if m > self.opened {
                    break;
                }
                n = m;
                self.i += 1;
            }
            if n > self.opened {
                return Err(E::Inv("back-reference to nonexistent group"));
            }
            if !self.closed[n - 1] {
                return Err(E::Inv("back-reference to open group"));
            }
            return Ok(Ast::BackRef(n));
        }
        Err(E::Inv("unknown escape"))
    }

    fn class_esc_peek(&self) -> bool {
        matches!(self.s.get(self.i + 1), Some(c) if "sSiIcCdDwWpP".contains(*c))
    }

    fn class_expr(&mut self) -> R<ClassExpr> {
        self.i += 1; // '['
        let mut neg = false;
        if self.peek() == Some('^') {
            neg = true;
            self.i += 1;
            if self.peek() == Some('^') {
                return Err(E::Unc("^ at start of negative group"));
            }
        }
        let mut parts: Vec<Part> = vec![];
        let mut sub = None;
        loop {
            let c = match self.peek() {
                Some(c) => c,
                None => return Err(E::Inv("unbalanced [")),
            };
            if c == ']' {
                break;
            }
            if c == '[' {
                return Err(E::Inv("unescaped [ in class"));
            }
            if c == '-' && self.s.get(self.i + 1) == Some(&'[') {
                if parts.is_empty() {
                    return Err(E::Inv("nothing before subtraction"));
                }
                self.i += 1;
                sub = Some(Box::new(self.class_expr()?));
                if self.peek() != Some(']') {
                    return Err(E::Inv("subtraction must end the group"));
                }
                break;
            }
            let first: char;
            if c == '\\' {
                if let Some(t) = self.class_esc()? {
                    parts.push(Part::Esc(t));
                    // a hyphen directly after a class escape that is neither
                    // last nor a subtraction is disputed territory
                    if self.peek() == Some('-') {
                        let nxt = self.s.get(self.i + 1).copied();
                        let is_last = nxt == Some(']') || nxt == Some('[');
                        if !is_last {
                            return Err(E::Unc("hyphen after a class escape"));
                        }
                    }
                    continue;
                }
                let e = self.s[self.i + 1];
                if let Some(ch) = self.single_esc(e) {
                    self.i += 2;
                    first = ch;
                } else if e.is_ascii_digit() {
                    return Err(E::Inv("back-reference or digit escape in class"));
                } else {
                    return Err(E::Inv("unknown escape"));
                }
            } else if c == '-' {
                // unescaped hyphen as a single character: legal first or last only
                let is_first = parts.is_empty();
                let nxt = self.s.get(self.i + 1).copied();
                let is_last = nxt == Some(']') || (nxt == Some('-') && self.s.get(self.i + 2) == Some(&'['));
                if is_last {
                    self.i += 1;
                    parts.push(Part::Ch('-'));
                    continue;
                }
                if is_first {
                    if nxt == Some('-') {
                        return Err(E::Inv("hyphen as range start"));
                    }
                    self.i += 1;
                    parts.push(Part::Ch('-'));
                    continue;
                }
                return Err(E::Unc("hyphen in the middle of a group"));
            } else {
                self.i += 1;
                first = c;
            }
            let a = first;
            // range?
            if self.peek() == Some('-') && self.s.get(self.i + 1) != Some(&'[') {
                let nxt = self.s.get(self.i + 1).copied();
                if nxt == Some(']') {
                    parts.push(Part::Ch(a));
                    continue; // the hyphen is the last single character
                }
                if nxt == Some('-') {
                    if self.s.get(self.i + 2) == Some(&'[') {
                        parts.push(Part::Ch(a));
                        continue;
                    }
                    return Err(E::Inv("hyphen as range end"));
                }
                self.i += 1; // consume '-'
                let b = match self.peek() {
                    None => return Err(E::Inv("unbalanced [")),
                    Some('\\') => {
                        if self.class_esc_peek() {
                            return Err(E::Inv("class escape as range end"));
                        }
                        let e = match self.s.get(self.i + 1) {
                            Some(e) => *e,
                            None => return Err(E::Inv("dangling escape")),
                        };
                        match self.single_esc(e) {
                            Some(ch) => {
                                self.i += 2;
                                ch
                            }
                            None => return Err(E::Inv("unknown escape")),
                        }
                    }
                    Some('[') => return Err(E::Inv("unescaped [ in class")),
                    Some(ch) => {
                        self.i += 1;
                        ch
                    }
                };
                if a > b {
                    return Err(E::Inv("reversed range"));
                }
                // a further hyphen directly after a complete range (`a-b-c`)
                // is disputed unless it is last / a subtraction
                if self.peek() == Some('-') {
                    let nxt = self.s.get(self.i + 1).copied();
                    if !(nxt == Some(']') || nxt == Some('[')) {
                        return Err(E::Unc("hyphen after a range"));
                    }
                }
                parts.push(Part::Range(a, b));
            } else {
                parts.push(Part::Ch(a));
            }
        }
        if parts.is_empty() {
            return Err(E::Inv("empty class"));
        }
        if self.peek() != Some(']') {
            return Err(E::Inv("unbalanced ["));
        }
        self.i += 1;
        Ok(ClassExpr { neg, parts, sub })
    }
}

// ---------------------------------------------------------------------------
// Rendering (used for the round-trip self check) and static analyses.

pub fn render(a: &Ast) -> String {
    let mut s = String::new();
    render_into(a, &mut s);
    s
}

fn render_char(c: char, in_class: bool, out: &mut String) {
    match c {
        '\n' => out.push_str("\\n"),
        '\r' => out.push_str("\\r"),
        '\t' => out.push_str("\\t"),
        '\\' | '|' | '.' | '?' | '*' | '+' | '(' | ')' | '{' | '}' | '[' | ']' | '^' | '$' if !in_class => {
            out.push('\\');
            out.push(c)
        }
        '\\' | '[' | ']' | '-' | '^' if in_class => {
            out.push('\\');
            out.push(c)
        }
        c => out.push(c),
    }
}

fn render_esc(e: &Esc, out: &mut String) {
    out.push('\\');
    out.push(e.kind);
    if e.kind == 'p' || e.kind == 'P' {
        out.push('{');
        out.push_str(&e.name);
        out.push('}');
    }
}

fn render_class(c: &ClassExpr, out: &mut String) {
    out.push('[');
    if c.neg {
        out.push('^');
    }
    for p in &c.parts {
        match p {
            Part::Ch(x) => render_char(*x, true, out),
            Part::Range(a, b) => {
                render_char(*a, true, out);
                out.push('-');
                render_char(*b, true, out);
            }
            Part::Esc(e) => render_esc(e, out),
        }
    }
    if let Some(s) = &c.sub {
        out.push('-');
        render_class(s, out);
    }
    out.push(']');
}

fn render_into(a: &Ast, out: &mut String) {
    match a {
        Ast::Empty => {}
        Ast::Lit(c) => render_char(*c, false, out),
        Ast::Dot => out.push('.'),
        Ast::Bol => out.push('^'),
        Ast::Eol => out.push('$'),
        Ast::Class(c) => render_class(c, out),
        Ast::Esc(e) => render_esc(e, out),
        Ast::Seq(v) => {
            for x in v {
                render_into(x, out);
            }
        }
        Ast::Alt(v) => {
            for (i, x) in v.iter().enumerate() {
                if i > 0 {
                    out.push('|');
                }
                render_into(x, out);
            }
        }
        Ast::Rep(b, min, max, greedy) => {
            render_into(b, out);
            match (min, max) {
                (0, None) => out.push('*'),
                (1, None) => out.push('+'),
                (0, Some(1)) => out.push('?'),
                (n, None) => out.push_str(&format!("{{{},}}", n)),
                (n, Some(m)) if n == m => out.push_str(&format!("{{{}}}", n)),
                (n, Some(m)) => out.push_str(&format!("{{{},{}}}", n, m)),
            }
            if !greedy {
                out.push('?');
            }
        }
        Ast::Group(_, b) => {
            out.push('(');
            render_into(b, out);
            out.push(')');
        }
        Ast::NonCap(b) => {
            out.push_str("(?:");
            render_into(b, out);
            out.push(')');
        }
        Ast::BackRef(n) => out.push_str(&format!("\\{}", n)),
    }
}

impl Ast {
    pub fn has_backref(&self) -> bool {
        match self {
            Ast::BackRef(_) => true,
            Ast::Seq(v) | Ast::Alt(v) => v.iter().any(|x| x.has_backref()),
            Ast::Rep(b, ..) | Ast::Group(_, b) | Ast::NonCap(b) => b.has_backref(),
            _ => false,
        }
    }

    pub fn has_group(&self) -> bool {
        match self {
            Ast::Group(..) => true,
            Ast::Seq(v) | Ast::Alt(v) => v.iter().any(|x| x.has_group()),
            Ast::Rep(b, ..) | Ast::NonCap(b) => b.has_group(),
            _ => false,
        }
    }

    pub fn has_anchor(&self) -> bool {
        match self {
            Ast::Bol | Ast::Eol => true,
            Ast::Seq(v) | Ast::Alt(v) => v.iter().any(|x| x.has_anchor()),
            Ast::Rep(b, ..) | Ast::Group(_, b) | Ast::NonCap(b) => b.has_anchor(),
            _ => false,
        }
    }

    /// Can this node match without consuming input at some position of some
    /// input (syntactic over-approximation: anchors and back-references count
    /// as possibly empty)?
    pub fn may_be_empty(&self) -> bool {
        match self {
            Ast::Empty | Ast::Bol | Ast::Eol | Ast::BackRef(_) => true,
            Ast::Lit(_) | Ast::Dot | Ast::Class(_) | Ast::Esc(_) => false,
            Ast::Seq(v) => v.iter().all(|x| x.may_be_empty()),
            Ast::Alt(v) => v.iter().any(|x| x.may_be_empty()),
            Ast::Rep(b, min, max, _) => *min == 0 || *max == Some(0) || b.may_be_empty(),
            Ast::Group(_, b) | Ast::NonCap(b) => b.may_be_empty(),
        }
    }

    /// Is some quantifier applied to a body that may match empty? Outside this
    /// class Perl, PCRE, Java and JavaScript agree on ordered-choice results.
    pub fn has_nullable_loop(&self) -> bool {
        match self {
            Ast::Seq(v) | Ast::Alt(v) => v.iter().any(|x| x.has_nullable_loop()),
            Ast::Rep(b, ..) => b.may_be_empty() || b.has_nullable_loop(),
            Ast::Group(_, b) | Ast::NonCap(b) => b.has_nullable_loop(),
            _ => false,
        }
    }

    /// Is a capturing group that some back-reference refers to located inside
    /// a quantified body that may be empty, or is a back-reference itself
    /// quantified / inside a quantified nullable body? (semantics disputed)
    pub fn backref_in_disputed_position(&self) -> bool {
        self.has_backref() && self.has_nullable_loop()
    }

    /// As `backref_in_disputed_position`, but a back-reference under an exact count
    /// (`\\1{2}`: two copies, nothing to dispute) does not count as a loop over a
    /// possibly-empty body.
    pub fn backref_in_disputed_position_strict(&self) -> bool {
        // Groups that are set, and not empty, whenever anything after them is tried: mandatory
        // members of the top-level sequence (through groups, not through alternations or
        // quantifiers) whose body cannot be empty. A back-reference to such a group is never
        // empty, so a body made of it is not a possibly-empty body.
        fn spine(a: &Ast, def: &mut Vec<usize>) {
            match a {
                Ast::Seq(v) => v.iter().for_each(|x| spine(x, def)),
                Ast::Group(k, b) => {
                    spine(b, def);
                    if !b.may_be_empty_given(def) {
                        def.push(*k);
                    }
                }
                Ast::NonCap(b) => spine(b, def),
                _ => {}
            }
        }
        fn nl(a: &Ast, def: &[usize]) -> bool {
            match a {
                Ast::Seq(v) | Ast::Alt(v) => v.iter().any(|x| nl(x, def)),
                Ast::Rep(b, min, max, _) => {
                    if matches!(**b, Ast::BackRef(_)) && Some(*min) == *max {
                        false
                    } else {
                        b.may_be_empty_given(def) || nl(b, def)
                    }
                }
                Ast::Group(_, b) | Ast::NonCap(b) => nl(b, def),
                _ => false,
            }
        }
        let mut def = vec![];
        spine(self, &mut def);
        self.has_backref() && nl(self, &def)
    }

    /// `may_be_empty` when back-references to the groups in `def` are known not to be empty.
    pub fn may_be_empty_given(&self, def: &[usize]) -> bool {
        match self {
            Ast::BackRef(k) => !def.contains(k),
            Ast::Empty | Ast::Bol | Ast::Eol => true,
            Ast::Lit(_) | Ast::Dot | Ast::Class(_) | Ast::Esc(_) => false,
            Ast::Seq(v) => v.iter().all(|x| x.may_be_empty_given(def)),
            Ast::Alt(v) => v.iter().any(|x| x.may_be_empty_given(def)),
            Ast::Rep(b, min, max, _) => *min == 0 || *max == Some(0) || b.may_be_empty_given(def),
            Ast::Group(_, b) | Ast::NonCap(b) => b.may_be_empty_given(def),
        }
    }

    /// Maximum nesting depth of quantifiers.
    pub fn quant_depth(&self) -> usize {
        match self {
            Ast::Seq(v) | Ast::Alt(v) => v.iter().map(|x| x.quant_depth()).max().unwrap_or(0),
            Ast::Rep(b, ..) => 1 + b.quant_depth(),
            Ast::Group(_, b) | Ast::NonCap(b) => b.quant_depth(),
            _ => 0,
        }
    }

    /// Is a capturing group located inside a quantified body?
    pub fn has_group_in_rep(&self) -> bool {
        match self {
            Ast::Seq(v) | Ast::Alt(v) => v.iter().any(|x| x.has_group_in_rep()),
            Ast::Rep(b, ..) => b.has_group() || b.has_group_in_rep(),
            Ast::Group(_, b) | Ast::NonCap(b) => b.has_group_in_rep(),
            _ => false,
        }
    }

    /// Structural attributes used to triage failures (development aid; also
    /// written into violation files).
    pub fn shape(&self) -> String {
        let mut v = vec![];
        if self.has_nullable_loop() {
            v.push("nullable-loop".to_string());
        }
        v.push(format!("quant-depth-{}", self.quant_depth()));
        if self.has_group_in_rep() {
            v.push("group-in-repeat".to_string());
        }
        if self.has_backref() {
            v.push("backref".to_string());
        }
        if self.has_anchor() {
            v.push("anchor".to_string());
        }
        v.join(",")
    }

    pub fn size(&self) -> usize {
        match self {
            Ast::Seq(v) | Ast::Alt(v) => 1 + v.iter().map(|x| x.size()).sum::<usize>(),
            Ast::Rep(b, ..) | Ast::Group(_, b) | Ast::NonCap(b) => 1 + b.size(),
            _ => 1,
        }
    }
}
