//! Chunked finite spaces: a list of segments, each a contiguous index range
//! cut into chunks of a fixed number of items.

use crate::gen::{self, Scope};

pub enum SegKind {
    /// ASTs of one scope and one size
    Ast { scope: &'static str, size: usize },
    /// token strings of exactly `len` tokens over an alphabet
    Tok { alphabet: &'static [&'static str], name: &'static str, len: usize },
    /// a list of explicit items (index into a check-defined table)
    List { name: &'static str },
}

pub struct Seg {
    pub kind: SegKind,
    pub count: u64,
    pub per_chunk: u64,
    /// check-defined parameter of the layer (e.g. input length bound)
    pub param: usize,
}

impl Seg {
    pub fn label(&self) -> String {
        match &self.kind {
            SegKind::Ast { scope, size } => {
                if self.param > 0 {
                    format!("scope {} size {} (layer parameter {})", scope, size, self.param)
                } else {
                    format!("scope {} size {}", scope, size)
                }
            }
            SegKind::Tok { name, len, .. } => format!("token strings {} length {}", name, len),
            SegKind::List { name } => format!("list {}", name),
        }
    }
    pub fn chunks(&self) -> u64 {
        (self.count + self.per_chunk - 1) / self.per_chunk
    }
}

pub struct Space {
    pub segs: Vec<Seg>,
}

impl Space {
    pub fn new() -> Space {
        Space { segs: vec![] }
    }
    pub fn ast(&mut self, scope: &'static str, max_size: usize, per_chunk: u64) -> &mut Self {
        let sc = gen::scope(scope);
        for n in 1..=max_size {
            self.segs.push(Seg {
                kind: SegKind::Ast { scope, size: n },
                count: sc.count(n),
                per_chunk,
                param: 0,
            });
        }
        self
    }
    /// AST layers min_size..=max_size with a layer parameter.
    pub fn ast_range(&mut self, scope: &'static str, min_size: usize, max_size: usize, per_chunk: u64, param: usize) -> &mut Self {
        let sc = gen::scope(scope);
        for n in min_size..=max_size {
            self.segs.push(Seg {
                kind: SegKind::Ast { scope, size: n },
                count: sc.count(n),
                per_chunk,
                param,
            });
        }
        self
    }
    pub fn tok(&mut self, name: &'static str, alphabet: &'static [&'static str], max_len: usize, per_chunk: u64) -> &mut Self {
        for len in 0..=max_len {
            self.segs.push(Seg {
                kind: SegKind::Tok { alphabet, name, len },
                count: (alphabet.len() as u64).pow(len as u32),
                per_chunk,
                param: 0,
            });
        }
        self
    }
    pub fn list(&mut self, name: &'static str, count: u64, per_chunk: u64) -> &mut Self {
        self.segs.push(Seg {
            kind: SegKind::List { name },
            count,
            per_chunk,
            param: 0,
        });
        self
    }
    pub fn chunks(&self) -> u64 {
        self.segs.iter().map(|s| s.chunks()).sum()
    }
    pub fn items(&self) -> u64 {
        self.segs.iter().map(|s| s.count).sum()
    }
    /// (segment, lo, hi) of a chunk
    pub fn locate(&self, mut chunk: u64) -> (&Seg, u64, u64) {
        for s in &self.segs {
            let c = s.chunks();
            if chunk < c {
                let lo = chunk * s.per_chunk;
                let hi = (lo + s.per_chunk).min(s.count);
                return (s, lo, hi);
            }
            chunk -= c;
        }
        panic!("chunk out of range");
    }
    pub fn layer_fn(&self) -> Box<dyn Fn(u64) -> String + Send + Sync> {
        let table: Vec<(u64, String)> = self.segs.iter().map(|s| (s.chunks(), s.label())).collect();
        Box::new(move |mut chunk| {
            for (c, l) in &table {
                if chunk < *c {
                    return l.clone();
                }
                chunk -= c;
            }
            "?".to_string()
        })
    }
    pub fn describe(&self) -> String {
        let mut v = vec![];
        for s in &self.segs {
            if s.count > 0 {
                v.push(format!("{}: {} items", s.label(), s.count));
            }
        }
        v.join("; ")
    }
}

/// Iterate the pattern texts of a chunk of an Ast or Tok segment.
pub fn for_each_text(seg: &Seg, lo: u64, hi: u64, f: &mut dyn FnMut(u64, &str)) {
    match &seg.kind {
        SegKind::Ast { scope, size } => {
            let sc: Scope = gen::scope(scope);
            for i in lo..hi {
                let g = sc.nth(*size, i);
                let t = sc.render(&g);
                f(i, &t);
            }
        }
        SegKind::Tok { alphabet, len, .. } => {
            for i in lo..hi {
                let d = crate::util::nth_token_string(alphabet, *len, i);
                let t = gen::tokens_to_string(alphabet, &d);
                f(i, &t);
            }
        }
        SegKind::List { .. } => panic!("for_each_text on a list segment"),
    }
}

pub fn seg_scope_name(seg: &Seg) -> String {
    match &seg.kind {
        SegKind::Ast { scope, size } => format!("{}{}", scope, size),
        SegKind::Tok { name, len, .. } => format!("{}{}", name, len),
        SegKind::List { name } => name.to_string(),
    }
}
