//! Coordinator / worker framework shared by all checks.
//!
//! `rxmc check <ID> --tier T` cuts the check's finite space into chunks and
//! runs them in worker subprocesses (`rxmc worker ...`). Workers stream
//! results as tab-separated lines. The coordinator merges counters,
//! attributes failures to known findings, writes violation files and the
//! evidence file, and sets the exit code (0 held / 1 violation / 2 machinery).

use crate::util::{vis, J};
use std::collections::{BTreeMap, HashMap, HashSet};
use std::io::{BufRead, BufReader, Write};
use std::process::{Command, Stdio};
use std::sync::mpsc;
use std::time::{Duration, Instant};

#[derive(Clone, Copy, PartialEq, Eq, Debug)]
pub enum Tier {
    Quick,
    Thorough,
}

impl Tier {
    pub fn name(self) -> &'static str {
        match self {
            Tier::Quick => "quick",
            Tier::Thorough => "thorough",
        }
    }
    pub fn parse(s: &str) -> Option<Tier> {
        match s {
            "quick" => Some(Tier::Quick),
            "thorough" => Some(Tier::Thorough),
            _ => None,
        }
    }
}

pub fn root() -> String {
    std::env::var("VERIF_ROOT").unwrap_or_else(|_| "/verif".to_string())
}

pub struct Failure {
    pub key: String,
    pub detail: J,
}

/// The fields identifying one case; rendered into the failure key and the
/// violation file.
#[derive(Clone, Debug, Default)]
pub struct Case {
    pub scope: String,
    pub pattern: String,
    pub flags: String,
    pub dialect: &'static str,
    pub input: String,
    pub replacement: String,
    pub api: String,
}

impl Case {
    pub fn new(scope: &str, pattern: &str, flags: &str) -> Case {
        Case {
            scope: scope.to_string(),
            pattern: pattern.to_string(),
            flags: flags.to_string(),
            dialect: "xpath",
            ..Default::default()
        }
    }
    pub fn input(mut self, s: &str) -> Case {
        self.input = s.to_string();
        self
    }
    pub fn repl(mut self, s: &str) -> Case {
        self.replacement = s.to_string();
        self
    }
    pub fn api(mut self, s: &str) -> Case {
        self.api = s.to_string();
        self
    }
    pub fn xsd(mut self, x: bool) -> Case {
        self.dialect = if x { "xsd" } else { "xpath" };
        self
    }
    pub fn key(&self, check: &str, kind: &str) -> String {
        format!(
            "{}|{}|{}|{}|{}|{}|{}|{}|{}",
            check,
            self.scope,
            vis(&self.pattern),
            vis(&self.flags),
            self.dialect,
            vis(&self.input),
            vis(&self.replacement),
            self.api,
            kind
        )
    }
    pub fn json(&self) -> J {
        J::obj(vec![
            ("scope", J::s(&self.scope)),
            ("pattern", J::s(&self.pattern)),
            ("flags", J::s(&self.flags)),
            ("dialect", J::s(self.dialect)),
            ("input", J::s(&self.input)),
            ("replacement", J::s(&self.replacement)),
            ("api", J::s(&self.api)),
        ])
    }
}

#[derive(Default)]
pub struct ChunkOut {
    pub counters: BTreeMap<String, u64>,
    pub maxes: BTreeMap<String, u64>,
    pub failures: Vec<Failure>,
    pub samples: Vec<J>,
    pub pinpoint: bool,
    /// structural attributes of the pattern currently explored (triage aid)
    pub shape: String,
}

impl ChunkOut {
    pub fn add(&mut self, k: &str, n: u64) {
        if n == 0 {
            return;
        }
        match self.counters.get_mut(k) {
            Some(v) => *v += n,
            None => {
                self.counters.insert(k.to_string(), n);
            }
        }
    }
    pub fn inc(&mut self, k: &str) {
        self.add(k, 1)
    }
    pub fn max(&mut self, k: &str, n: u64) {
        let e = self.maxes.entry(k.to_string()).or_insert(0);
        if n > *e {
            *e = n;
        }
    }
    /// Record a failing case.
    pub fn fail(&mut self, check: &str, case: &Case, kind: &str, expected: &str, observed: &str, note: &str) {
        let mut d = J::obj(vec![
            ("property", J::s(check)),
            ("kind", J::s(kind)),
            ("case", case.json()),
            ("expected", J::s(expected)),
            ("observed", J::s(observed)),
        ]);
        if !note.is_empty() {
            d.push("note", J::s(note));
        }
        if !self.shape.is_empty() {
            d.push("shape", J::s(&self.shape));
        }
        // the key names the case, the kind of failure and (as a short hash) what was
        // observed: a listed known finding only excuses the very same wrong answer
        self.failures.push(Failure {
            key: format!("{}#{:06x}", case.key(check, kind), crate::util::fnv(observed) & 0xff_ffff),
            detail: d,
        });
    }
    pub fn sample(&mut self, j: J) {
        if self.samples.len() < 3 {
            self.samples.push(j);
        }
    }
    /// In pinpoint mode, announce the case about to run (flushed), so that a
    /// process-level abort can be attributed to it.
    pub fn pin(&self, desc: &dyn Fn() -> String) {
        if self.pinpoint {
            println!("P\t{}", desc().replace(['\t', '\n', '\r'], " "));
            let _ = std::io::stdout().flush();
        }
    }
}

pub struct Plan {
    pub chunks: u64,
    /// layer label of each chunk (e.g. "K size 4"); chunks of one layer are contiguous
    pub layer_of: Box<dyn Fn(u64) -> String + Send + Sync>,
    pub description: String,
    pub rule: String,
    pub assumptions: Vec<String>,
}

pub struct Ctx {
    pub tier: Tier,
    pub ucd: crate::ucd::Ucd,
    pub seed: u64,
}

pub trait Check: Sync {
    fn id(&self) -> &'static str;
    fn plan(&self, ctx: &Ctx) -> Plan;
    fn run_chunk(&self, ctx: &Ctx, chunk: u64, out: &mut ChunkOut);
}

// ---------------------------------------------------------------------------
// worker

pub fn worker_main(check: &dyn Check, ctx: &Ctx, w: u64, n: u64, only: Option<u64>, pinpoint: bool, deadline: Option<u64>) {
    let plan = check.plan(ctx);
    let mut total = ChunkOut::default();
    let stdout = std::io::stdout();
    let chunks: Vec<u64> = match only {
        Some(c) => vec![c],
        None => {
            // seed only permutes the order in which a worker visits its chunks
            let mut v: Vec<u64> = (0..plan.chunks).filter(|c| c % n == w).collect();
            if ctx.seed != 0 && v.len() > 1 {
                let r = (ctx.seed as usize) % v.len();
                v.rotate_left(r);
            }
            v
        }
    };
    for c in chunks {
        if let Some(d) = deadline {
            let now = std::time::SystemTime::now()
                .duration_since(std::time::UNIX_EPOCH)
                .map(|d| d.as_secs())
                .unwrap_or(0);
            if now >= d {
                println!("K\t{}", c);
                continue;
            }
        }
        println!("C\t{}", c);
        let _ = stdout.lock().flush();
        let mut out = ChunkOut {
            pinpoint,
            ..Default::default()
        };
        check.run_chunk(ctx, c, &mut out);
        {
            let mut lock = stdout.lock();
            for f in &out.failures {
                let _ = writeln!(lock, "F\t{}\t{}\t{}", c, f.key, f.detail.to_string());
            }
            let _ = writeln!(lock, "E\t{}", c);
        }
        for (k, v) in out.counters {
            total.add(&k, v);
        }
        for (k, v) in out.maxes {
            total.max(&k, v);
        }
        for s in out.samples {
            if total.samples.len() < 4 {
                total.samples.push(s);
            }
        }
    }
    let mut lock = stdout.lock();
    for (k, v) in &total.counters {
        let _ = writeln!(lock, "S\t{}\t{}", k, v);
    }
    for (k, v) in &total.maxes {
        let _ = writeln!(lock, "M\t{}\t{}", k, v);
    }
    for s in &total.samples {
        let _ = writeln!(lock, "X\t{}", s.to_string());
    }
    let fuel = crate::imp::MAX_FUEL_USED.with(|m| m.get());
    let _ = writeln!(lock, "M\tmax_fuel_used\t{}", fuel);
    let steps = crate::imp::STEPS.with(|m| m.get());
    let _ = writeln!(lock, "S\tapi_steps\t{}", steps);
    let sc = regexml::verif::site_counts();
    for (i, v) in sc.iter().enumerate() {
        if *v > 0 {
            let _ = writeln!(lock, "S\ttick_site_{:02}\t{}", i, v);
        }
    }
    let _ = writeln!(lock, "D");
}

// ---------------------------------------------------------------------------
// known findings

pub struct Finding {
    pub property: String,
    pub id: String,
    pub what: String,
    pub set: HashSet<String>,
}

pub struct Findings {
    pub known: Vec<Finding>,
    pub fixed: Vec<String>,
}

pub fn load_findings() -> Result<Findings, String> {
    let path = format!("{}/known_findings.txt", root());
    let mut out = Findings {
        known: vec![],
        fixed: vec![],
    };
    let text = match std::fs::read_to_string(&path) {
        Ok(t) => t,
        Err(_) => return Ok(out),
    };
    for line in text.lines() {
        let line = line.trim();
        if line.is_empty() || line.starts_with('#') {
            continue;
        }
        if let Some(rest) = line.strip_prefix("fixed:") {
            out.fixed.push(rest.trim().to_string());
        } else if let Some(rest) = line.strip_prefix("known:") {
            let mut property = String::new();
            let mut id = String::new();
            let mut setf = String::new();
            let mut what = String::new();
            let rest = rest.trim();
            let (head, w) = match rest.find(" what=") {
                Some(ix) => (&rest[..ix], rest[ix + 6..].to_string()),
                None => (rest, String::new()),
            };
            what.push_str(&w);
            for tok in head.split_whitespace() {
                if let Some(v) = tok.strip_prefix("property=") {
                    property = v.to_string();
                } else if let Some(v) = tok.strip_prefix("id=") {
                    id = v.to_string();
                } else if let Some(v) = tok.strip_prefix("set=") {
                    setf = v.to_string();
                }
            }
            if property.is_empty() || id.is_empty() || setf.is_empty() {
                return Err(format!("malformed known-finding line: {}", line));
            }
            let sp = format!("{}/{}", root(), setf);
            let st = std::fs::read_to_string(&sp).map_err(|e| format!("{}: {}", sp, e))?;
            let set: HashSet<String> = st
                .lines()
                .filter(|l| !l.is_empty() && !l.starts_with('#'))
                .map(|l| l.to_string())
                .collect();
            out.known.push(Finding {
                property,
                id,
                what,
                set,
            });
        } else {
            return Err(format!("unrecognised line in known_findings.txt: {}", line));
        }
    }
    Ok(out)
}

// ---------------------------------------------------------------------------
// coordinator

enum Msg {
    Line(usize, String),
    Eof(usize),
}

struct WorkerState {
    child: std::process::Child,
    current_chunk: Option<u64>,
    done: bool,
    eof: bool,
    last_activity: Instant,
    remaining_after_crash: Vec<u64>,
}

pub struct RunResult {
    pub counters: BTreeMap<String, u64>,
    pub maxes: BTreeMap<String, u64>,
    pub samples: Vec<String>,
    pub failures: Vec<(u64, String, String)>,
    pub chunks_done: HashSet<u64>,
    pub chunks_skipped: HashSet<u64>,
    pub machinery_errors: Vec<String>,
}

fn spawn_worker(check_id: &str, tier: Tier, seed: u64, args: &[String]) -> std::io::Result<std::process::Child> {
    let exe = std::env::current_exe()?;
    // address-space limit via sh ulimit so a runaway allocation kills the worker only
    let mut cmdline = format!(
        "ulimit -v 6000000 2>/dev/null; exec '{}' worker {} {} --seed {}",
        exe.display(),
        check_id,
        tier.name(),
        seed
    );
    for a in args {
        cmdline.push(' ');
        cmdline.push_str(a);
    }
    Command::new("sh")
        .arg("-c")
        .arg(cmdline)
        .stdin(Stdio::null())
        .stdout(Stdio::piped())
        .stderr(Stdio::inherit())
        .spawn()
}

/// Run a set of workers to completion, gathering their output.
fn run_workers(check_id: &str, tier: Tier, seed: u64, specs: Vec<Vec<String>>, silence: Duration) -> (RunResult, Vec<(usize, Option<u64>, String)>) {
    let (tx, rx) = mpsc::channel::<Msg>();
    let mut ws: Vec<WorkerState> = Vec::new();
    let mut res = RunResult {
        counters: BTreeMap::new(),
        maxes: BTreeMap::new(),
        samples: vec![],
        failures: vec![],
        chunks_done: HashSet::new(),
        chunks_skipped: HashSet::new(),
        machinery_errors: vec![],
    };
    for (i, spec) in specs.iter().enumerate() {
        match spawn_worker(check_id, tier, seed, spec) {
            Ok(mut child) => {
                let out = child.stdout.take().unwrap();
                let tx = tx.clone();
                std::thread::spawn(move || {
                    let rd = BufReader::new(out);
                    for line in rd.lines() {
                        match line {
                            Ok(l) => {
                                if tx.send(Msg::Line(i, l)).is_err() {
                                    return;
                                }
                            }
                            Err(_) => break,
                        }
                    }
                    let _ = tx.send(Msg::Eof(i));
                });
                ws.push(WorkerState {
                    child,
                    current_chunk: None,
                    done: false,
                    eof: false,
                    last_activity: Instant::now(),
                    remaining_after_crash: vec![],
                });
            }
            Err(e) => {
                res.machinery_errors.push(format!("cannot spawn worker: {}", e));
            }
        }
    }
    drop(tx);
    // (worker index, chunk in progress, reason)
    let mut crashes: Vec<(usize, Option<u64>, String)> = vec![];
    let mut last_pin: HashMap<usize, String> = HashMap::new();
    let mut open = ws.len();
    while open > 0 {
        match rx.recv_timeout(Duration::from_secs(1)) {
            Ok(Msg::Line(i, l)) => {
                let w = &mut ws[i];
                w.last_activity = Instant::now();
                let mut it = l.splitn(4, '\t');
                match it.next() {
                    Some("C") => {
                        w.current_chunk = it.next().and_then(|x| x.parse().ok());
                    }
                    Some("E") => {
                        if let Some(c) = it.next().and_then(|x| x.parse().ok()) {
                            res.chunks_done.insert(c);
                        }
                        w.current_chunk = None;
                    }
                    Some("K") => {
                        if let Some(c) = it.next().and_then(|x| x.parse().ok()) {
                            res.chunks_skipped.insert(c);
                        }
                    }
                    Some("F") => {
                        let c: u64 = it.next().and_then(|x| x.parse().ok()).unwrap_or(0);
                        let key = it.next().unwrap_or("").to_string();
                        let detail = it.next().unwrap_or("{}").to_string();
                        res.failures.push((c, key, detail));
                    }
                    Some("S") => {
                        let k = it.next().unwrap_or("").to_string();
                        let v: u64 = it.next().and_then(|x| x.parse().ok()).unwrap_or(0);
                        *res.counters.entry(k).or_insert(0) += v;
                    }
                    Some("M") => {
                        let k = it.next().unwrap_or("").to_string();
                        let v: u64 = it.next().and_then(|x| x.parse().ok()).unwrap_or(0);
                        let e = res.maxes.entry(k).or_insert(0);
                        if v > *e {
                            *e = v;
                        }
                    }
                    Some("X") => {
                        if res.samples.len() < 8 {
                            res.samples.push(l[2..].to_string());
                        }
                    }
                    Some("P") => {
                        last_pin.insert(i, l[2..].to_string());
                    }
                    Some("D") => {
                        w.done = true;
                    }
                    _ => {}
                }
            }
            Ok(Msg::Eof(i)) => {
                let w = &mut ws[i];
                w.eof = true;
                open -= 1;
                let status = w.child.wait();
                if !w.done {
                    let reason = match status {
                        Ok(s) => format!("worker exited abnormally ({})", s),
                        Err(e) => format!("worker wait failed ({})", e),
                    };
                    let pin = last_pin.get(&i).cloned().unwrap_or_default();
                    crashes.push((i, w.current_chunk, format!("{} {}", reason, pin)));
                }
            }
            Err(mpsc::RecvTimeoutError::Timeout) => {
                for (i, w) in ws.iter_mut().enumerate() {
                    if !w.eof && !w.done && w.last_activity.elapsed() > silence {
                        let _ = w.child.kill();
                        let pin = last_pin.get(&i).cloned().unwrap_or_default();
                        crashes.push((i, w.current_chunk, format!("worker silent for {}s, killed {}", silence.as_secs(), pin)));
                        w.done = true; // avoid double report at EOF
                        w.remaining_after_crash.clear();
                    }
                }
            }
            Err(mpsc::RecvTimeoutError::Disconnected) => break,
        }
    }
    (res, crashes)
}

fn merge(into: &mut RunResult, from: RunResult) {
    for (k, v) in from.counters {
        *into.counters.entry(k).or_insert(0) += v;
    }
    for (k, v) in from.maxes {
        let e = into.maxes.entry(k).or_insert(0);
        if v > *e {
            *e = v;
        }
    }
    for s in from.samples {
        if into.samples.len() < 8 {
            into.samples.push(s);
        }
    }
    into.failures.extend(from.failures);
    into.chunks_done.extend(from.chunks_done);
    into.chunks_skipped.extend(from.chunks_skipped);
    into.machinery_errors.extend(from.machinery_errors);
}

pub fn coordinator_main(check: &dyn Check, ctx: &Ctx, jobs: u64, max_secs: Option<u64>) -> i32 {
    let t0 = Instant::now();
    let id = check.id();
    let plan = check.plan(ctx);
    let findings = match load_findings() {
        Ok(f) => f,
        Err(e) => {
            eprintln!("MACHINERY ERROR: {}", e);
            return 2;
        }
    };
    let jobs = jobs.max(1).min(plan.chunks.max(1));
    let deadline = max_secs.map(|s| {
        std::time::SystemTime::now()
            .duration_since(std::time::UNIX_EPOCH)
            .map(|d| d.as_secs())
            .unwrap_or(0)
            + s
    });
    let mut specs = vec![];
    for w in 0..jobs {
        let mut a = vec!["--stripe".to_string(), w.to_string(), jobs.to_string()];
        if let Some(d) = deadline {
            a.push("--deadline".into());
            a.push(d.to_string());
        }
        specs.push(a);
    }
    let silence = Duration::from_secs(300);
    let (mut res, crashes) = run_workers(id, ctx.tier, ctx.seed, specs, silence);

    // A worker that died: re-run the chunk it was in under pinpoint mode to
    // name the case, then re-run the rest of its stripe.
    let mut abort_cases: Vec<(u64, String)> = vec![];
    for (w, chunk, reason) in crashes {
        eprintln!("worker {} crashed in chunk {:?}: {}", w, chunk, reason);
        // chunks of this stripe not yet done
        let pending: Vec<u64> = (0..plan.chunks)
            .filter(|c| c % jobs == w as u64 && !res.chunks_done.contains(c) && !res.chunks_skipped.contains(c))
            .collect();
        for c in pending {
            // every aborting chunk is a violation already; once a few are
            // named, the rest of the stripe is left unexplored (and reported
            // as such) rather than waiting out the watchdog chunk by chunk
            if abort_cases.len() >= 4 {
                break;
            }
            let spec = vec!["--only".to_string(), c.to_string(), "--pinpoint".to_string()];
            let (r2, cr2) = run_workers(id, ctx.tier, ctx.seed, vec![spec], silence);
            merge(&mut res, r2);
            for (_, ch, reason2) in cr2 {
                abort_cases.push((ch.unwrap_or(c), reason2));
            }
        }
    }

    // ---- attribution
    let mut per_finding: BTreeMap<String, u64> = BTreeMap::new();
    let mut unexplained: Vec<&(u64, String, String)> = vec![];
    let mut seen_keys: HashSet<&str> = HashSet::new();
    for f in &res.failures {
        if !seen_keys.insert(f.1.as_str()) {
            continue;
        }
        let mut hit = None;
        for k in &findings.known {
            if k.property == id && k.set.contains(&f.1) {
                hit = Some(k.id.clone());
                break;
            }
        }
        match hit {
            Some(h) => *per_finding.entry(h).or_insert(0) += 1,
            None => unexplained.push(f),
        }
    }
    unexplained.sort_by(|a, b| (a.0, &a.1).cmp(&(b.0, &b.1)));

    // re-run the chunk of the first unexplained failures in a fresh worker:
    // a violation must reproduce before it is reported
    let mut flaky = false;
    {
        let mut checked_chunks: HashSet<u64> = HashSet::new();
        for f in unexplained.iter().take(3) {
            if f.1.contains("|FREERUN|") {
                // observed with free-running threads: a real counterexample, but the
                // OS chose the interleaving, so it need not recur in a second run
                continue;
            }
            if !checked_chunks.insert(f.0) {
                continue;
            }
            let spec = vec!["--only".to_string(), f.0.to_string()];
            let (r2, cr2) = run_workers(id, ctx.tier, 0, vec![spec], silence);
            let again: HashSet<&str> = r2.failures.iter().map(|x| x.1.as_str()).collect();
            if !cr2.is_empty() || !again.contains(f.1.as_str()) {
                // The machinery is deterministic (no clocks, no randomness, fuel instead of
                // time), so a failure that does not recur when its chunk is run alone in a
                // fresh process was caused by what that worker process had executed before:
                // the outcome of a call depends on earlier calls, which is itself what C18
                // forbids. It is reported as a violation, marked as history-dependent.
                println!("NOTE: failure {} did not recur in a fresh process: the outcome depends on calls made earlier in the same process (a compiled Regex must be a pure value, C18)", f.1);
                flaky = true;
            }
        }
    }

    // development aid: dump every unexplained failure key (never used by registered commands)
    if let Ok(path) = std::env::var("RXMC_DUMP") {
        let mut body = String::new();
        for f in &unexplained {
            body.push_str(&f.1);
            body.push('\t');
            body.push_str(&crate::util::json_get_str(&f.2, "shape").unwrap_or_default());
            body.push('\n');
        }
        let _ = std::fs::write(&path, body);
    }

    // ---- violation files
    let vdir = format!("{}/violations/{}", root(), id);
    let _ = std::fs::remove_dir_all(&vdir);
    let mut violation_lines: Vec<String> = vec![];
    let mut nviol = unexplained.len() as u64;
    if !unexplained.is_empty() || !abort_cases.is_empty() {
        let _ = std::fs::create_dir_all(&vdir);
    }
    for (n, f) in unexplained.iter().enumerate().take(40) {
        let path = format!("{}/{}.json", vdir, n);
        let body = format!("{{\"key\":{},\"history_dependent_run\":{},\"detail\":{}}}\n", J::s(&f.1).to_string(), flaky, f.2);
        if std::fs::write(&path, body).is_err() {
            res.machinery_errors.push(format!("cannot write {}", path));
        }
        if n < 12 {
            violation_lines.push(format!("VIOLATION property={} replay={}", id, path));
        }
    }
    for (n, (chunk, reason)) in abort_cases.iter().enumerate() {
        let path = format!("{}/abort{}.json", vdir, n);
        let body = J::obj(vec![
            ("key", J::s(format!("{}|abort|chunk {}", id, chunk))),
            (
                "detail",
                J::obj(vec![
                    ("property", J::s(id)),
                    ("kind", J::s("Abort")),
                    ("chunk", J::i(*chunk)),
                    ("observed", J::s(reason)),
                ]),
            ),
        ]);
        let _ = std::fs::write(&path, body.pretty());
        violation_lines.push(format!("VIOLATION property={} replay={}", id, path));
        nviol += 1;
    }

    // ---- evidence
    let total_chunks = plan.chunks;
    let done = res.chunks_done.len() as u64;
    let exhaustive = done == total_chunks && abort_cases.is_empty();
    // layers fully completed
    let mut layer_total: BTreeMap<String, (u64, u64)> = BTreeMap::new();
    let mut layer_order: Vec<String> = vec![];
    for c in 0..total_chunks {
        let l = (plan.layer_of)(c);
        if !layer_total.contains_key(&l) {
            layer_order.push(l.clone());
        }
        let e = layer_total.entry(l).or_insert((0, 0));
        e.0 += 1;
        if res.chunks_done.contains(&c) {
            e.1 += 1;
        }
    }
    let layers: Vec<J> = layer_order
        .iter()
        .map(|l| {
            let (t, d) = layer_total[l];
            J::obj(vec![("layer", J::s(l)), ("chunks", J::i(t)), ("completed", J::i(d)), ("complete", J::Bool(t == d))])
        })
        .collect();
    let g = |k: &str| res.counters.get(k).copied().unwrap_or(0);
    let mut cov = J::obj(vec![
        ("states", J::i(g("states").max(1))),
        ("transitions", J::i(g("api_steps").max(1))),
        ("traces_validated_against_impl", J::i(g("validated"))),
        ("evaluations", J::i(g("evaluations").max(g("validated")).max(1))),
        ("distinct_nontrivial", J::i(g("nontrivial"))),
        ("rule", J::s(&plan.rule)),
        ("exhaustive", J::Bool(exhaustive)),
        ("space", J::s(&plan.description)),
        ("chunks_total", J::i(total_chunks)),
        ("chunks_completed", J::i(done)),
        ("layers", J::Arr(layers)),
    ]);
    if let Some(s) = max_secs {
        cov.push("time_cap_s", J::i(s));
        cov.push("time_cap_hit", J::Bool(!res.chunks_skipped.is_empty()));
    }
    let samples: Vec<J> = res.samples.iter().map(|s| J::Str(s.clone())).collect();
    let samples = if samples.is_empty() {
        vec![J::s("(no sample emitted)")]
    } else {
        samples
    };
    cov.push("samples", J::Arr(samples));
    let counters: Vec<(String, J)> = res.counters.iter().map(|(k, v)| (k.clone(), J::i(*v))).collect();
    cov.push("counters", J::Obj(counters));
    let maxes: Vec<(String, J)> = res.maxes.iter().map(|(k, v)| (k.clone(), J::i(*v))).collect();
    cov.push("maxima", J::Obj(maxes));
    let mf = res.maxes.get("max_fuel_used").copied().unwrap_or(0);
    cov.push("fuel_budget_per_api_step", J::i(crate::imp::FUEL));
    cov.push(
        "fuel_margin_note",
        J::s(if mf * 10 > crate::imp::FUEL {
            "WARNING: a terminating call used more than 10% of the fuel budget; raise the budget"
        } else {
            "largest terminating call is below 10% of the budget"
        }),
    );
    let kf: Vec<(String, J)> = per_finding.iter().map(|(k, v)| (k.clone(), J::i(*v))).collect();
    cov.push("known_finding_cases", J::Obj(kf));
    cov.push("failures_total", J::i(seen_keys.len()));
    cov.push("failures_unexplained", J::i(nviol));
    let ev = J::obj(vec![
        ("property_id", J::s(id)),
        ("tier", J::s(ctx.tier.name())),
        ("seed", J::i(ctx.seed)),
        ("level", J::s("model_checking")),
        ("coverage", cov),
        ("assumptions", J::Arr(plan.assumptions.iter().map(J::s).collect())),
        ("wall_s", J::Num(t0.elapsed().as_secs_f64())),
        ("violations", J::i(nviol)),
    ]);
    let evdir = format!("{}/evidence", root());
    let _ = std::fs::create_dir_all(&evdir);
    let evpath = format!("{}/{}.json", evdir, id);
    if let Err(e) = std::fs::write(&evpath, ev.pretty()) {
        eprintln!("MACHINERY ERROR: cannot write evidence {}: {}", evpath, e);
        return 2;
    }

    // ---- report
    println!(
        "{} {}: {} chunks ({} completed), states={} api_steps={} validated={} failures={} unexplained={} wall={:.1}s",
        id,
        ctx.tier.name(),
        total_chunks,
        done,
        g("states"),
        g("api_steps"),
        g("validated"),
        seen_keys.len(),
        nviol,
        t0.elapsed().as_secs_f64()
    );
    for k in &findings.known {
        if k.property == id {
            if let Some(n) = per_finding.get(&k.id) {
                println!("KNOWN-FINDING: property={} {} {} ({} cases this run)", id, k.id, k.what, n);
            }
        }
    }
    if !res.machinery_errors.is_empty() {
        for e in &res.machinery_errors {
            eprintln!("MACHINERY ERROR: {}", e);
        }
        return 2;
    }
    if done + (res.chunks_skipped.len() as u64) < total_chunks && abort_cases.is_empty() {
        eprintln!("MACHINERY ERROR: {} chunks neither completed nor skipped", total_chunks - done - res.chunks_skipped.len() as u64);
        return 2;
    }
    if nviol > 0 {
        for l in &violation_lines {
            println!("{}", l);
        }
        if nviol as usize > violation_lines.len() {
            println!("({} violations in total; first {} written to {})", nviol, unexplained.len().min(40), vdir);
        }
        return 1;
    }
    0
}
