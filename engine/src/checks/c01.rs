//! C01 — is_match decides membership of some substring in the regex's
//! language. Exhaustive over AST scopes x all flag subsets of {i,m,s} x all
//! inputs up to a length bound; oracle: order-free set semantics (`Sem`).

use crate::core::{Case, Check, ChunkOut, Ctx, Plan, Tier};
use crate::imp::{self, Out};
use crate::refparse::{self, Dialect, Verdict};
use crate::sem::{Fl, Sem};
use crate::space::{self, Space};
use crate::util::{all_strings, FLAG_SUBSETS_IMS, J};

pub struct C01;

fn space_for(tier: Tier) -> (Space, usize) {
    let mut s = Space::new();
    match tier {
        Tier::Quick => {
            s.ast("K0", 5, 128).ast("Q", 3, 128).ast("CL", 4, 128).ast("AN", 3, 128);
            s.ast_range("LP", 1, 3, 64, 5).ast_range("LPI", 1, 3, 64, 5);
            s.ast_range("ALT", 1, 4, 64, 4);
            // back-references: membership decided by exhaustive path exploration
            s.ast_range("G", 1, 6, 256, 3).ast_range("BR", 1, 3, 64, 3);
            s.ast_range("FX", 1, 4, 64, 6).ast_range("FXA", 1, 4, 64, 6);
            s.ast_range("HI", 1, 4, 64, 4).ast_range("K0E", 1, 3, 64, 3).ast_range("K0S", 1, 3, 64, 3).ast_range("SEQO", 1, 5, 64, 4);
            s.ast_range("DUP", 1, 4, 16, 4).ast_range("HIST", 1, 3, 16, 4).ast_range("CLN", 1, 3, 16, 3).ast_range("ANU", 1, 3, 16, 4);
            s.ast_range("BR3", 1, 5, 64, 4).ast_range("OPTG", 1, 3, 32, 5).ast_range("QNA", 1, 4, 16, 11).ast_range("CLG", 1, 5, 32, 3).ast_range("ALTM", 1, 4, 16, 4).ast_range("EMPB", 1, 5, 16, 4);
            (s, 3)
        }
        Tier::Thorough => {
            s.ast("K0", 5, 128).ast("Q", 4, 128).ast("CL", 4, 128).ast("AN", 5, 128).ast("U", 4, 128).ast("CI", 3, 128);
            // one more level of depth on shorter inputs, restricted to patterns
            // without a quantifier over a possibly-empty body
            s.ast_range("K0", 6, 6, 256, 103);
            // deeper / longer layers, restricted likewise and to quantifier depth 1
            s.ast_range("K0", 7, 7, 1024, 202).ast_range("Q", 5, 5, 256, 204).ast_range("CL", 5, 5, 128, 203).ast_range("AN", 6, 6, 128, 204);
            s.ast_range("LP", 1, 4, 64, 6).ast_range("LPI", 1, 3, 64, 5).ast_range("LPI", 4, 4, 64, 4);
            s.ast_range("ALT", 1, 4, 64, 4);
            s.ast_range("G", 1, 6, 256, 4).ast_range("BR", 1, 4, 64, 4);
            s.ast_range("FX", 1, 4, 64, 6).ast_range("FXA", 1, 4, 64, 6);
            s.ast_range("HI", 1, 4, 64, 4).ast_range("K0E", 1, 4, 64, 3).ast_range("K0S", 1, 4, 64, 3).ast_range("SEQO", 1, 5, 64, 5);
            s.ast_range("DUP", 1, 4, 16, 4).ast_range("HIST", 1, 3, 16, 4).ast_range("CLN", 1, 4, 16, 4).ast_range("ANU", 1, 4, 16, 4);
            s.ast_range("BR3", 1, 5, 64, 4).ast_range("OPTG", 1, 5, 32, 4).ast_range("QNA", 1, 4, 16, 12).ast_range("CLG", 1, 5, 32, 4).ast_range("ALTM", 1, 4, 16, 4).ast_range("EMPB", 1, 5, 16, 4);
            // long inputs on small patterns (cursor arithmetic of the scan loops)
            s.ast_range("KL", 1, 3, 16, 208).ast_range("KL", 4, 4, 32, 206);
            (s, 4)
        }
    }
}

impl Check for C01 {
    fn id(&self) -> &'static str {
        "C01"
    }
    fn plan(&self, ctx: &Ctx) -> Plan {
        let (s, maxlen) = space_for(ctx.tier);
        Plan {
            chunks: s.chunks(),
            layer_of: s.layer_fn(),
            description: format!(
                "every pattern AST of the listed scopes (sizes in AST nodes) x all 8 subsets of flags i,m,s x every input of length <= {} over the scope's alphabet: {}",
                maxlen,
                s.describe()
            ),
            rule: "exhaustive enumeration, simplest first; a (pattern, flags) program is non-trivial when the reference language accepts some and rejects some input of the scope".into(),
            assumptions: vec![
                "the reference set semantics (engine/src/sem.rs) is the specification of the language; it is cross-checked against an independent ordered semantics and Perl in selftest".into(),
                "patterns that the reference parser calls valid but the compiler rejects are C07's business and are skipped here (counted as rejected_valid)".into(),
                "panics and fuel exhaustion are owned by C05/C06 and counted here as inconclusive".into(),
            ],
        }
    }
    fn run_chunk(&self, ctx: &Ctx, chunk: u64, out: &mut ChunkOut) {
        let (sp, maxlen) = space_for(ctx.tier);
        let (seg, lo, hi) = sp.locate(chunk);
        let scope_name = space::seg_scope_name(seg);
        let sigma = match &seg.kind {
            space::SegKind::Ast { scope, .. } => crate::gen::scope(scope).sigma,
            _ => unreachable!(),
        };
        // layer parameter: input-length bound + 100 * restriction (1: no quantifier over a
        // possibly-empty body; 2: additionally no quantifier nested in a quantifier)
        let restriction = seg.param / 100;
        let maxlen = if seg.param % 100 > 0 { seg.param % 100 } else { maxlen };
        let inputs = all_strings(&sigma, maxlen);
        let inputs_c: Vec<Vec<char>> = inputs.iter().map(|s| s.chars().collect()).collect();
        space::for_each_text(seg, lo, hi, &mut |_idx, text| {
            let parsed = match refparse::parse(text, Dialect::XPath, &ctx.ucd) {
                Verdict::Valid(p) => p,
                Verdict::Invalid(_) => {
                    out.inc("ref_invalid_skipped");
                    return;
                }
                Verdict::Unclear(_) => {
                    out.inc("ref_unclear_skipped");
                    return;
                }
            };
            let with_backref = parsed.ast.has_backref();
            if with_backref && parsed.ast.backref_in_disputed_position() {
                out.inc("backref_disputed_skipped");
                return;
            }
            if (scope_name.starts_with('G') || scope_name.starts_with("BR")) && !with_backref {
                // these layers are only here for their back-reference patterns
                return;
            }
            if (restriction >= 1 && parsed.ast.has_nullable_loop()) || (restriction >= 2 && parsed.ast.quant_depth() >= 2) {
                out.inc("restricted_layer_skipped");
                return;
            }
            out.inc("patterns");
            out.shape = parsed.ast.shape();
            for flags in FLAG_SUBSETS_IMS {
                let fl = Fl::parse(flags);
                out.pin(&|| format!("compile {:?} {:?}", text, flags));
                let re = match imp::compile(text, flags, false) {
                    Out::Ok(re) => re,
                    Out::Err(_) => {
                        out.inc("rejected_valid");
                        continue;
                    }
                    _ => {
                        out.inc("inconclusive_crash");
                        continue;
                    }
                };
                let mut seen_t = false;
                let mut seen_f = false;
                for (k, inp) in inputs.iter().enumerate() {
                    let sem = Sem {
                        s: &inputs_c[k],
                        f: fl,
                        ucd: &ctx.ucd,
                    };
                    let want = if with_backref {
                        // a back-reference has no set semantics: some path of the
                        // ordered reference must match (all paths are explored)
                        match crate::sem::Paths::new(&inputs_c[k], fl, &ctx.ucd).exists(&parsed.ast, parsed.groups) {
                            Ok(w) => w,
                            Err(_) => {
                                out.inc("ref_out_of_budget");
                                continue;
                            }
                        }
                    } else {
                        sem.lang_is_match(&parsed.ast)
                    };
                    if want {
                        seen_t = true
                    } else {
                        seen_f = true
                    }
                    out.pin(&|| format!("is_match {:?} {:?} {:?}", text, flags, inp));
                    let got = imp::is_match(&re, inp);
                    out.inc("states");
                    match got {
                        Out::Ok(g) => {
                            out.inc("validated");
                            if g != want {
                                let case = Case::new(&scope_name, text, flags).input(inp).api("is_match");
                                out.fail(
                                    "C01",
                                    &case,
                                    if g { "WrongTrue" } else { "WrongFalse" },
                                    &format!("{}", want),
                                    &format!("{}", g),
                                    "",
                                );
                            }
                        }
                        _ => out.inc("inconclusive_crash"),
                    }
                }
                if seen_t && seen_f {
                    out.inc("nontrivial");
                }
                out.add("expect_true_programs", seen_t as u64);
            }
            out.sample(J::obj(vec![
                ("pattern", J::s(text)),
                ("flags", J::s("(all 8 subsets of ims)")),
                ("inputs", J::s(format!("all {} strings of length <= {} over {:?}", inputs.len(), maxlen, sigma))),
            ]));
        });
    }
}
