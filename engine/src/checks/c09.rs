//! C09 — character class expressions denote exactly their set algebra.
//! Class expressions are enumerated in layers (items per group, subtraction
//! depth); membership is observed through is_match of ^C$, ^C+$ and ^(C)$ on
//! a finite set of representatives (every boundary +-1 of every leaf set
//! involved plus the extremes of the scalar range), with and without flag i;
//! in the thorough tier the subtraction-free layers are additionally tested
//! against ALL 1,112,064 scalar values through one replace_all over the whole
//! scalar range. Oracle: set algebra of the reference (engine/src/sem.rs).

use crate::core::{Case, Check, ChunkOut, Ctx, Plan, Tier};
use crate::imp::{self, Out};
use crate::refparse::{self, Ast, ClassExpr, Dialect, Part, Verdict};
use crate::sem::class_contains;
use crate::space::Space;
use crate::util::J;

pub struct C09;

const ITEMS: [&str; 16] = ["a", "c", "a-c", "A-C", "\\d", "\\s", "\\D", "\\-", "\\]", "^", " ", "\u{e9}", "\\p{Lu}", "\\P{Lu}", "\\t-\\r", "!-\\-"];
const HYPH: [(&str, &str); 3] = [("", ""), ("-", ""), ("", "-")];

/// sequences of 1..=n items, as index -> text
fn seq_count(n: u32) -> u64 {
    (1..=n).map(|l| (ITEMS.len() as u64).pow(l)).sum()
}
fn seq_text(mut idx: u64) -> String {
    let k = ITEMS.len() as u64;
    let mut len = 1;
    let mut block = k;
    while idx >= block {
        idx -= block;
        block *= k;
        len += 1;
    }
    let d = crate::util::nth_token_string(&ITEMS, len, idx);
    crate::gen::tokens_to_string(&ITEMS, &d)
}

/// A group without subtraction: (neg, hyphen variant, item sequence)
fn group_count(n: u32) -> u64 {
    seq_count(n) * 2 * 3
}
fn group_body(idx: u64) -> String {
    let seq = idx / 6;
    let neg = (idx % 6) / 3 == 1;
    let (h0, h1) = HYPH[(idx % 3) as usize];
    format!("{}{}{}{}", if neg { "^" } else { "" }, h0, seq_text(seq), h1)
}

#[derive(Clone, Copy)]
struct Layer {
    name: &'static str,
    outer: u32,
    /// subtraction chain: item bounds of the subtracted groups, outermost first
    subs: &'static [u32],
    all_scalars: bool,
}

const LAYERS_QUICK: [Layer; 4] = [
    Layer { name: "items<=2", outer: 2, subs: &[], all_scalars: false },
    Layer { name: "items<=2 minus items<=1", outer: 2, subs: &[1], all_scalars: false },
    Layer { name: "small: nested subtraction, depth 3", outer: 1, subs: &[1, 1], all_scalars: false },
    Layer { name: "small: nested subtraction, depth 4", outer: 1, subs: &[1, 1, 1], all_scalars: false },
];
const LAYERS_THOROUGH: [Layer; 9] = [
    Layer { name: "small: nested subtraction, depth 3", outer: 1, subs: &[1, 1], all_scalars: false },
    Layer { name: "small: nested subtraction, depth 4", outer: 1, subs: &[1, 1, 1], all_scalars: false },
    Layer { name: "small: nested subtraction, depth 5", outer: 1, subs: &[1, 1, 1, 1], all_scalars: false },
    Layer { name: "items<=2", outer: 2, subs: &[], all_scalars: false },
    Layer { name: "items<=2 minus items<=1", outer: 2, subs: &[1], all_scalars: false },
    Layer { name: "items<=3", outer: 3, subs: &[], all_scalars: false },
    Layer { name: "items<=2 minus items<=2", outer: 2, subs: &[2], all_scalars: false },
    Layer { name: "items<=1 minus items<=1 minus items<=1 (depth 3)", outer: 1, subs: &[1, 1], all_scalars: false },
    Layer { name: "items<=2, all scalar values", outer: 2, subs: &[], all_scalars: true },
];

fn layers(tier: Tier) -> &'static [Layer] {
    match tier {
        Tier::Quick => &LAYERS_QUICK,
        Tier::Thorough => &LAYERS_THOROUGH,
    }
}

/// The "small" layers nest deeper over one item per group from a short list (optionally
/// negated): what is subtracted from what must associate to the right at every depth.
const SMALL_ITEMS: [&str; 4] = ["a-c", "c", "a", "\\d"];
fn is_small(l: &Layer) -> bool {
    l.name.starts_with("small:")
}
fn small_body(idx: u64) -> String {
    format!("{}{}", if idx % 2 == 1 { "^" } else { "" }, SMALL_ITEMS[(idx / 2) as usize])
}

fn layer_count(l: &Layer) -> u64 {
    if is_small(l) {
        return (2 * SMALL_ITEMS.len() as u64).pow(1 + l.subs.len() as u32);
    }
    let mut n = group_count(l.outer);
    for s in l.subs {
        n *= group_count(*s);
    }
    n
}

fn layer_text(l: &Layer, mut idx: u64) -> String {
    // mixed radix: innermost subtraction varies fastest
    let mut parts: Vec<String> = vec![];
    let small = is_small(l);
    for s in l.subs.iter().rev() {
        let c = if small { 2 * SMALL_ITEMS.len() as u64 } else { group_count(*s) };
        parts.push(if small { small_body(idx % c) } else { group_body(idx % c) });
        idx /= c;
    }
    parts.push(if small { small_body(idx) } else { group_body(idx) });
    parts.reverse();
    // [outer-[sub1-[sub2]]]
    let mut t = String::new();
    for (i, p) in parts.iter().enumerate() {
        if i > 0 {
            t.push('-');
        }
        t.push('[');
        t.push_str(p);
    }
    for _ in &parts {
        t.push(']');
    }
    t
}

/// Characters c for which the literal c and the class [c] are compared on every
/// scalar value: case-regular letters, case-less characters, and members of
/// the families whose simple case mappings are not one-to-one.
const LITERAL_VS_CLASS: [char; 32] = [
    'a', 'Z', '1', ' ', '\u{e9}', '\u{c9}', '\u{4e2d}', '\u{10400}', '\u{10428}', '\u{1F600}', '\u{3a9}', 'i', 'I', '\u{130}', '\u{131}', 's', 'S', '\u{17f}', 'k', 'K', '\u{212a}', '\u{b5}',
    '\u{3bc}', '\u{39c}', '\u{3c3}', '\u{3c2}', '\u{3a3}', '\u{df}', '\u{1e9e}', '\u{1c4}', '\u{1c5}', '\u{1c6}',
];

fn space_for(tier: Tier) -> Space {
    let mut s = Space::new();
    for l in layers(tier) {
        s.list(l.name, layer_count(l), if l.all_scalars { 8 } else { 256 });
    }
    s.list("literal vs one-character class, all scalar values", LITERAL_VS_CLASS.len() as u64, 1);
    s
}

fn probes() -> Vec<char> {
    let mut v: Vec<char> = vec![];
    let mut add = |c: u32| {
        for d in [c.wrapping_sub(1), c, c + 1] {
            if let Some(ch) = char::from_u32(d) {
                if !v.contains(&ch) {
                    v.push(ch);
                }
            }
        }
    };
    for c in ['a', 'c', 'A', 'C', '0', '9', ' ', '\t', '\n', '\r', '-', ']', '^', '\u{e9}', '\u{c9}', '\u{660}', '\u{669}', '\u{1d7ce}', '\u{1d7ff}'] {
        add(c as u32);
    }
    for c in [0u32, 0x7E, 0x7F, 0x80, 0xFF, 0x100, 0xD7FF, 0xE000, 0xFFFD, 0x10000, 0x10FFFF, 0x4E2D, 0x3A9, 0x3C9] {
        if let Some(ch) = char::from_u32(c) {
            if !v.contains(&ch) {
                v.push(ch);
            }
        }
    }
    v
}

fn class_of(text: &str, ctx: &Ctx) -> Option<ClassExpr> {
    match refparse::parse(text, Dialect::XPath, &ctx.ucd) {
        Verdict::Valid(p) => match p.ast {
            Ast::Class(c) => Some(c),
            _ => None,
        },
        _ => None,
    }
}

fn uses_category(ce: &ClassExpr) -> bool {
    ce.parts.iter().any(|p| matches!(p, Part::Esc(e) if "dDwWpP".contains(e.kind))) || ce.sub.as_ref().map_or(false, |s| uses_category(s))
}

impl Check for C09 {
    fn id(&self) -> &'static str {
        "C09"
    }
    fn plan(&self, ctx: &Ctx) -> Plan {
        let s = space_for(ctx.tier);
        Plan {
            chunks: s.chunks(),
            layer_of: s.layer_fn(),
            description: format!(
                "class expressions [ ^? -? items -? (-[...])? ] over items {:?} in layers ({}); membership through ^C$, ^C+$, ^(C)$ on {} representative characters with and without flag i; layer 'all scalar values': bare C against every Unicode scalar value via one replace_all over U+0000..U+10FFFF",
                ITEMS,
                s.describe(),
                probes().len()
            ),
            rule: "exhaustive enumeration of the layers; expressions the reference calls invalid or unclear are skipped (counted); an expression is non-trivial when it has a negation, a range, an escape or a subtraction".into(),
            assumptions: vec![
                "leaf sets of \\d \\D come from the committed General_Category witness (Unicode 14.0); code points unassigned in the witness are not judged for expressions using category escapes".into(),
                "under flag i single characters and ranges are closed under simple case mapping before negation / subtraction".into(),
            ],
        }
    }
    fn run_chunk(&self, ctx: &Ctx, chunk: u64, out: &mut ChunkOut) {
        let sp = space_for(ctx.tier);
        let (seg, lo, hi) = sp.locate(chunk);
        let lname = match &seg.kind {
            crate::space::SegKind::List { name } => *name,
            _ => unreachable!(),
        };
        if lname.starts_with("literal vs") {
            for idx in lo..hi {
                self.literal_vs_class(out, LITERAL_VS_CLASS[idx as usize]);
            }
            return;
        }
        let layer = *layers(ctx.tier).iter().find(|l| l.name == lname).unwrap();
        let probes = probes();
        for idx in lo..hi {
            let text = layer_text(&layer, idx);
            let ce = match class_of(&text, ctx) {
                Some(c) => c,
                None => {
                    out.inc("ref_invalid_or_unclear_skipped");
                    continue;
                }
            };
            out.inc("expressions");
            if text.contains('^') || text.contains('\\') || text.contains("-[") || text.contains("a-c") || text.contains("A-C") {
                out.inc("nontrivial");
            }
            if layer.all_scalars {
                self.all_scalars(ctx, out, &text, &ce);
                continue;
            }
            for flags in ["", "i"] {
                let ci = flags == "i";
                let forms = [format!("^{}$", text), format!("^{}+$", text), format!("^({})$", text)];
                let res: Vec<Option<regexml::Regex>> = forms.iter().map(|f| imp::compile(f, flags, false)).map(|o| match o { Out::Ok(r) => Some(r), _ => None }).collect();
                if res.iter().any(|r| r.is_none()) {
                    out.inc("rejected_valid_or_crash");
                    out.fail("C09", &Case::new("CLS", &text, flags).api("compile"), "ClassRejected", "Ok (valid class expression)", "rejected or crashed", "");
                    continue;
                }
                for c in &probes {
                    let want = class_contains(&ce, *c, ci, &ctx.ucd);
                    let inp = c.to_string();
                    for (fi, re) in res.iter().enumerate() {
                        let re = re.as_ref().unwrap();
                        out.inc("states");
                        match imp::is_match(re, &inp) {
                            Out::Ok(g) => {
                                out.inc("validated");
                                if g != want {
                                    out.fail(
                                        "C09",
                                        &Case::new("CLS", &forms[fi], flags).input(&inp).api("is_match"),
                                        if g { "WrongMember" } else { "MissingMember" },
                                        &want.to_string(),
                                        &g.to_string(),
                                        &format!("membership of U+{:04X} in {}", *c as u32, text),
                                    );
                                }
                            }
                            _ => out.inc("inconclusive_crash"),
                        }
                    }
                }
            }
            if idx == lo {
                out.sample(J::obj(vec![("class_expression", J::s(&text)), ("forms", J::s("^C$ ^C+$ ^(C)$")), ("flags", J::s("\"\" and \"i\""))]));
            }
        }
    }
}

impl C09 {
    /// "[c] matches the same characters as the literal c": both forms are run over
    /// the string of all scalar values; what they leave behind must be identical.
    fn literal_vs_class(&self, out: &mut ChunkOut, c: char) {
        let hay: String = (0u32..0x110000).filter_map(char::from_u32).collect();
        let lit = c.to_string();
        let cls = format!("[{}]", c);
        for flags in ["", "i"] {
            let mut left: Vec<String> = vec![];
            for p in [&lit, &cls] {
                let re = match imp::compile(p, flags, false) {
                    Out::Ok(r) => r,
                    _ => {
                        out.inc("rejected_valid_or_crash");
                        continue;
                    }
                };
                out.pin(&|| format!("all scalars {:?} {:?}", p, flags));
                match imp::with_fuel(400_000_000, || imp::replace_all(&re, &hay, "")) {
                    Out::Ok(s) => left.push(s),
                    _ => out.inc("inconclusive_crash"),
                }
            }
            if left.len() != 2 {
                continue;
            }
            out.add("states", 2 * 1_112_064);
            out.add("validated", 2 * 1_112_064);
            out.inc("nontrivial");
            let (a, b) = (&left[0], &left[1]);
            let (mut ia, mut ib) = (a.chars().peekable(), b.chars().peekable());
            let mut reported = 0;
            for x in hay.chars() {
                // x is matched by a form iff it is missing from what that form left behind
                let lit_matches = if ia.peek() == Some(&x) { ia.next(); false } else { true };
                let cls_matches = if ib.peek() == Some(&x) { ib.next(); false } else { true };
                if lit_matches != cls_matches && reported < 16 {
                    reported += 1;
                    out.fail(
                        "C09",
                        &Case::new("LITCLS", &cls, flags).input(&x.to_string()).api("replace_all"),
                        "LiteralAndClassDiffer",
                        &format!("literal {:?} matches: {}", lit, lit_matches),
                        &format!("class {:?} matches: {}", cls, cls_matches),
                        &format!("U+{:04X} over all scalar values", x as u32),
                    );
                }
            }
        }
        out.sample(J::obj(vec![("literal", J::s(&lit)), ("class", J::s(&cls)), ("haystack", J::s("all 1,112,064 Unicode scalar values"))]));
    }
    fn all_scalars(&self, ctx: &Ctx, out: &mut ChunkOut, text: &str, ce: &ClassExpr) {
        let hay: String = (0u32..0x110000).filter_map(char::from_u32).collect();
        let skip_cn = uses_category(ce);
        for flags in ["", "i"] {
            let ci = flags == "i";
            let re = match imp::compile(text, flags, false) {
                Out::Ok(r) => r,
                _ => {
                    out.inc("rejected_valid_or_crash");
                    continue;
                }
            };
            out.pin(&|| format!("all scalars {:?} {:?}", text, flags));
            let got = imp::with_fuel(400_000_000, || imp::replace_all(&re, &hay, ""));
            let non_members = match got {
                Out::Ok(s) => s,
                _ => {
                    out.inc("inconclusive_crash");
                    continue;
                }
            };
            // walk both strings in lockstep
            let mut nm = non_members.chars().peekable();
            let mut bad: Option<(char, bool)> = None;
            let mut checked = 0u64;
            for c in hay.chars() {
                let is_non_member = nm.peek() == Some(&c);
                if is_non_member {
                    nm.next();
                }
                if skip_cn && ctx.ucd.category(c as u32) == *b"Cn" {
                    continue;
                }
                checked += 1;
                let want = class_contains(ce, c, ci, &ctx.ucd);
                if want == is_non_member && bad.is_none() {
                    bad = Some((c, !is_non_member));
                }
            }
            out.add("states", checked);
            out.add("validated", checked);
            if let Some((c, g)) = bad {
                out.fail(
                    "C09",
                    &Case::new("CLSALL", text, flags).input(&c.to_string()).api("replace_all"),
                    if g { "WrongMember" } else { "MissingMember" },
                    &(!g).to_string(),
                    &g.to_string(),
                    &format!("first disagreement at U+{:04X} over all scalar values", c as u32),
                );
            }
        }
        out.sample(J::obj(vec![("class_expression", J::s(text)), ("haystack", J::s("all 1,112,064 Unicode scalar values"))]));
    }
}
