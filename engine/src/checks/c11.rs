//! C11 — flag i makes matching case-insensitive, and only flag i does.
//! Exhaustive over the case scope (letters with one-to-one simple case
//! mappings: ASCII, Latin-1, Deseret; mixed with case-less characters; ranges,
//! negated classes, subtraction, \p{Lu}) x inputs; oracles: (1) the reference
//! language with and without i, (2) metamorphic: swapping the case of input
//! letters or of pattern letters changes neither is_match nor spans under i,
//! (3) match without i => match with i.

use super::common::{self, Compiled};
use crate::core::{Case, Check, ChunkOut, Ctx, Plan, Tier};
use crate::imp::{self, Out};
use crate::sem::{Fl, Sem};
use crate::space::{self, SegKind, Space};
use crate::ucd::swap_case;
use crate::util::{all_strings, J};

pub struct C11;

fn space_for(tier: Tier) -> (Space, usize) {
    let mut s = Space::new();
    match tier {
        Tier::Quick => {
            s.ast("CI", 4, 32);
            s.list("letters", LETTERS.len() as u64, 4);
            (s, 2)
        }
        Tier::Thorough => {
            s.ast("CI", 5, 32);
            s.list("letters", LETTERS.len() as u64, 4);
            (s, 3)
        }
    }
}

/// Letter pairs with one-to-one simple case mappings (lower, upper) plus
/// case-less characters, for the literal / class / back-reference micro-family.
const LETTERS: [(char, char); 10] = [
    ('a', 'A'),
    ('z', 'Z'),
    ('\u{e9}', '\u{c9}'),
    ('\u{e0}', '\u{c0}'),
    ('\u{3b1}', '\u{391}'),
    ('\u{3c9}', '\u{3a9}'),
    ('\u{434}', '\u{414}'),
    ('\u{44f}', '\u{42f}'),
    ('\u{10428}', '\u{10400}'),
    ('\u{1e943}', '\u{1e921}'),
];
const CASELESS: [char; 5] = ['1', ' ', '\n', '-', '\u{4e2d}'];

fn swap_all(s: &str) -> String {
    s.chars().map(swap_case).collect()
}

/// Swap the case of the literal letters of a pattern text (outside escapes).
fn swap_pattern(text: &str) -> String {
    let mut out = String::new();
    let cs: Vec<char> = text.chars().collect();
    let mut i = 0;
    while i < cs.len() {
        if cs[i] == '\\' {
            out.push(cs[i]);
            i += 1;
            if i < cs.len() {
                let c = cs[i];
                out.push(c);
                i += 1;
                if c == 'p' || c == 'P' {
                    while i < cs.len() {
                        out.push(cs[i]);
                        i += 1;
                        if cs[i - 1] == '}' {
                            break;
                        }
                    }
                }
            }
            continue;
        }
        out.push(swap_case(cs[i]));
        i += 1;
    }
    out
}

impl Check for C11 {
    fn id(&self) -> &'static str {
        "C11"
    }
    fn plan(&self, ctx: &Ctx) -> Plan {
        let (s, maxlen) = space_for(ctx.tier);
        Plan {
            chunks: s.chunks(),
            layer_of: s.layer_fn(),
            description: format!(
                "every pattern AST over leaves a A b U+E9 U+C9 1 [a-b] [^A] [A-[b]] \\p{{Lu}} x {{i, no i}} x every input of length <= {} over a A b B U+E9 U+C9 1 LF U+10400 U+10428; plus a micro-family over {} letter pairs (ASCII, Latin-1, Greek, Cyrillic, Deseret, Adlam) and {} case-less characters as literal, class member, range end, negated class, subtraction and back-reference: {}",
                maxlen,
                LETTERS.len(),
                CASELESS.len(),
                s.describe()
            ),
            rule: "exhaustive; a program is non-trivial when its answers with and without i differ on some input".into(),
            assumptions: vec![
                "alphabets contain only letters with one-to-one simple case mappings (no final sigma, Kelvin sign, dotted/dotless i)".into(),
                "under i a single character or a range inside a class matches an input character when the two are equal or case counterparts (item-level closure), then negation and subtraction apply; class escapes are unaffected".into(),
            ],
        }
    }
    fn run_chunk(&self, ctx: &Ctx, chunk: u64, out: &mut ChunkOut) {
        let (sp, maxlen) = space_for(ctx.tier);
        let (seg, lo, hi) = sp.locate(chunk);
        let scope_name = space::seg_scope_name(seg);
        if let SegKind::List { .. } = seg.kind {
            for i in lo..hi {
                let (l, u) = LETTERS[i as usize];
                let mut pats: Vec<String> = vec![];
                for x in [l, u] {
                    pats.push(format!("{}", x));
                    pats.push(format!("[{}]", x));
                    pats.push(format!("[^{}]", x));
                    pats.push(format!("[{}-{}]", x, x));
                    pats.push(format!("[1{}-[1]]", x));
                    pats.push(format!("[{}-[{}]]", x, swap_case(x)));
                    pats.push(format!("({})\\1", x));
                    pats.push(format!("{}+1", x));
                    pats.push(format!("1*{}", x));
                    pats.push(format!("^{}$", x));
                }
                let mut inputs: Vec<String> = vec![];
                for a in [l, u].iter().chain(CASELESS.iter()) {
                    inputs.push(a.to_string());
                    for b in [l, u, '1'] {
                        inputs.push(format!("{}{}", a, b));
                    }
                }
                for text in &pats {
                    self.one(ctx, out, &scope_name, text, &inputs);
                }
                out.sample(J::obj(vec![("letter_pair", J::s(format!("{} {}", l, u))), ("patterns", J::s(format!("{:?}", pats)))]));
            }
            return;
        }
        let sigma = match &seg.kind {
            SegKind::Ast { scope, .. } => crate::gen::scope(scope).sigma,
            _ => unreachable!(),
        };
        let inputs = all_strings(&sigma, maxlen);
        space::for_each_text(seg, lo, hi, &mut |_i, text| {
            self.one(ctx, out, &scope_name, text, &inputs);
            out.sample(J::obj(vec![("pattern", J::s(text))]));
        });
    }
}

impl C11 {
    fn one(&self, ctx: &Ctx, out: &mut ChunkOut, scope: &str, text: &str, inputs: &[String]) {
        let parsed = match common::ref_valid(text, ctx) {
            Some(p) => p,
            None => return,
        };
        out.shape = parsed.ast.shape();
        let re_plain = match common::compile(text, "", false) {
            Compiled::Ok(r) => r,
            _ => {
                out.inc("rejected_or_crash");
                return;
            }
        };
        let re_i = match common::compile(text, "i", false) {
            Compiled::Ok(r) => r,
            _ => {
                out.inc("rejected_or_crash");
                return;
            }
        };
        let swapped = swap_pattern(text);
        let re_swapped_i = if common::ref_valid(&swapped, ctx).is_some() {
            match common::compile(&swapped, "i", false) {
                Compiled::Ok(r) => Some(r),
                _ => None,
            }
        } else {
            None
        };
        let has_backref = parsed.ast.has_backref();
        // Monotonicity (3) is only implied for patterns without negation or
        // subtraction ([^A] excludes a under i); the case-swap metamorphic
        // oracle (2) only where no case-sensitive class escape occurs
        // (\p{Lu} is unaffected by the flag).
        let positive = !text.contains("[^") && !text.contains("-[") && !text.contains(r"\P") && !text.contains(r"\D") && !text.contains(r"\W") && !text.contains(r"\S");
        let case_closed = !text.contains(r"\p") && !text.contains(r"\P");
        let mut differs = false;
        for inp in inputs {
            let chars: Vec<char> = inp.chars().collect();
            out.pin(&|| format!("{:?} {:?}", text, inp));
            out.inc("states");
            let g0 = imp::is_match(&re_plain, inp);
            let g1 = imp::is_match(&re_i, inp);
            let (g0, g1) = match (g0, g1) {
                (Out::Ok(a), Out::Ok(b)) => (a, b),
                _ => {
                    out.inc("inconclusive_crash");
                    continue;
                }
            };
            if g0 != g1 {
                differs = true;
            }
            out.inc("validated");
            // (1) reference language
            if !has_backref {
                for (flags, got) in [("", g0), ("i", g1)] {
                    let sem = Sem { s: &chars, f: Fl::parse(flags), ucd: &ctx.ucd };
                    let want = sem.lang_is_match(&parsed.ast);
                    if want != got {
                        out.fail(
                            "C11",
                            &Case::new(scope, text, flags).input(inp).api("is_match"),
                            if got { "WrongTrue" } else { "WrongFalse" },
                            &want.to_string(),
                            &got.to_string(),
                            "reference language",
                        );
                    }
                }
            }
            // (3) match without i => match with i
            if positive && g0 && !g1 {
                out.fail("C11", &Case::new(scope, text, "i").input(inp).api("is_match"), "LostUnderI", "true (matches without i)", "false", "");
            }
            // (2) metamorphic: swap input case
            let sw = swap_all(inp);
            if case_closed && sw != *inp {
                if let Out::Ok(g) = imp::is_match(&re_i, &sw) {
                    if g != g1 {
                        out.fail(
                            "C11",
                            &Case::new(scope, text, "i").input(inp).api("is_match"),
                            "InputCaseSwapChangesResult",
                            &format!("same answer for {:?} and {:?}", inp, sw),
                            &format!("{} vs {}", g1, g),
                            "",
                        );
                    }
                }
                // spans (non-nullable only: analyze Ok)
                if let (Out::Ok(a), Out::Ok(b)) = (imp::analyze(&re_i, inp), imp::analyze(&re_i, &sw)) {
                    let (sa, sb) = (imp::spans_from_analyze(&a), imp::spans_from_analyze(&b));
                    if sa != sb {
                        out.fail(
                            "C11",
                            &Case::new(scope, text, "i").input(inp).api("analyze"),
                            "InputCaseSwapChangesSpans",
                            &format!("{:?}", sa),
                            &format!("{:?} on {:?}", sb, sw),
                            "",
                        );
                    }
                }
            }
            // (2') metamorphic: swap pattern letter case
            if let (true, Some(rs)) = (case_closed, &re_swapped_i) {
                if let Out::Ok(g) = imp::is_match(rs, inp) {
                    if g != g1 {
                        out.fail(
                            "C11",
                            &Case::new(scope, text, "i").input(inp).api("is_match"),
                            "PatternCaseSwapChangesResult",
                            &format!("same answer as pattern {:?}", swapped),
                            &format!("{} vs {}", g1, g),
                            "",
                        );
                    }
                }
            }
        }
        if differs {
            out.inc("nontrivial");
        }
    }
}
