//! C11 — flag i makes matching case-insensitive, and only flag i does.
//! Exhaustive over the case scope (letters with one-to-one simple case
//! mappings: ASCII, Latin-1, Deseret; mixed with case-less characters; ranges,
//! negated classes, subtraction, \p{Lu}) x inputs; oracles: (1) the reference
//! language with and without i, (2) metamorphic: swapping the case of input
//! letters or of pattern letters changes neither is_match nor spans under i,
//! (3) match without i => match with i.

use super::common::{self, Compiled};
use crate::core::{Case, Check, ChunkOut, Ctx, Plan, Tier};
use crate::imp::{self, Out};
use crate::sem::{Fl, Sem};
use crate::space::{self, SegKind, Space};
use crate::ucd::swap_case;
use crate::util::{all_strings, J};

pub struct C11;

/// Upper bound on the number of letter pairs (the list segment is sized by
/// it; indices beyond the actual list are empty items).
const N_PAIRS_HINT: u64 = 1536;

/// Scalar values per item of the "related" list (every scalar value is visited).
const RELATED_BLOCK: u64 = 0x1000;

fn space_for(tier: Tier) -> (Space, usize) {
    let mut s = Space::new();
    match tier {
        Tier::Quick => {
            s.ast("CI", 4, 32);
            s.ast_range("CI2", 1, 4, 32, 3).ast_range("CI2A", 1, 4, 32, 3);
            s.list("letters", N_PAIRS_HINT, 8);
            s.list("related", 0x110000 / RELATED_BLOCK, 1);
            s.list("flag strings", 1, 1);
            (s, 2)
        }
        Tier::Thorough => {
            s.ast("CI", 4, 32);
            // one more level, restricted to patterns without a quantifier over a
            // possibly-empty body (the greedy-repeat defect D17 is owned by C01)
            s.ast_range("CI", 5, 5, 32, 1);
            s.ast_range("CI2", 1, 5, 32, 4).ast_range("CI2A", 1, 5, 32, 4);
            s.list("letters", N_PAIRS_HINT, 8);
            s.list("related", 0x110000 / RELATED_BLOCK, 1);
            s.list("flag strings", 1, 1);
            (s, 3)
        }
    }
}

/// All letter pairs with a strictly one-to-one simple case mapping: lower(u) =
/// l, upper(l) = u, nothing else maps to either, both assigned in the
/// General_Category witness (Unicode case-pair stability then guarantees that
/// every Unicode version that knows both characters pairs them).
pub fn letter_pairs(ucd: &crate::ucd::Ucd) -> Vec<(char, char)> {
    use std::collections::HashMap;
    let one = |mut it: std::char::ToLowercase| -> Option<char> {
        match (it.next(), it.next()) {
            (Some(x), None) => Some(x),
            _ => None,
        }
    };
    let oneu = |mut it: std::char::ToUppercase| -> Option<char> {
        match (it.next(), it.next()) {
            (Some(x), None) => Some(x),
            _ => None,
        }
    };
    // classes of the relation c ~ lower(c) ~ upper(c)
    let mut class_of: HashMap<char, Vec<char>> = HashMap::new();
    let mut irregular: std::collections::HashSet<char> = std::collections::HashSet::new();
    for cp in 0u32..0x110000 {
        let c = match char::from_u32(cp) {
            Some(c) => c,
            None => continue,
        };
        let l = one(c.to_lowercase());
        let u = oneu(c.to_uppercase());
        if l.is_none() || u.is_none() {
            irregular.insert(c);
            continue;
        }
        let (l, u) = (l.unwrap(), u.unwrap());
        if l != c || u != c {
            // key: the lower-case form
            let key = if l != c { l } else { c };
            let e = class_of.entry(key).or_default();
            for x in [c, l, u] {
                if !e.contains(&x) {
                    e.push(x);
                }
            }
        }
    }
    let mut out = vec![];
    for (k, v) in class_of {
        if v.len() != 2 || v.iter().any(|c| irregular.contains(c)) {
            continue;
        }
        let (a, b) = (v[0], v[1]);
        let (l, u) = if a == k { (a, b) } else { (b, a) };
        let lo = one(u.to_lowercase());
        let up = oneu(l.to_uppercase());
        if lo != Some(l) || up != Some(u) || one(l.to_lowercase()) != Some(l) || oneu(u.to_uppercase()) != Some(u) {
            continue;
        }
        if ucd.category(l as u32) == *b"Cn" || ucd.category(u as u32) == *b"Cn" {
            continue;
        }
        out.push((l, u));
    }
    out.sort();
    out
}
const CASELESS: [char; 5] = ['1', ' ', '\n', '-', '\u{4e2d}'];

fn swap_all(s: &str) -> String {
    s.chars().map(swap_case).collect()
}

/// Swap the case of the literal letters of a pattern text (outside escapes).
fn swap_pattern(text: &str) -> String {
    let mut out = String::new();
    let cs: Vec<char> = text.chars().collect();
    let mut i = 0;
    while i < cs.len() {
        if cs[i] == '\\' {
            out.push(cs[i]);
            i += 1;
            if i < cs.len() {
                let c = cs[i];
                out.push(c);
                i += 1;
                if c == 'p' || c == 'P' {
                    while i < cs.len() {
                        out.push(cs[i]);
                        i += 1;
                        if cs[i - 1] == '}' {
                            break;
                        }
                    }
                }
            }
            continue;
        }
        out.push(swap_case(cs[i]));
        i += 1;
    }
    out
}

impl Check for C11 {
    fn id(&self) -> &'static str {
        "C11"
    }
    fn plan(&self, ctx: &Ctx) -> Plan {
        let (s, maxlen) = space_for(ctx.tier);
        Plan {
            chunks: s.chunks(),
            layer_of: s.layer_fn(),
            description: format!(
                "every pattern AST over leaves a A b U+E9 U+C9 1 [a-b] [^A] [A-[b]] \\p{{Lu}} x {{i, no i}} x every input of length <= {} over a A b B U+E9 U+C9 1 LF U+10400 U+10428; plus a micro-family over every letter pair with a strictly one-to-one simple case mapping (at most {} pairs, the evidence reports the number) and {} case-less characters as literal, class member, range end, negated class, subtraction and back-reference: {}",
                maxlen,
                N_PAIRS_HINT,
                CASELESS.len(),
                s.describe()
            ),
            rule: "exhaustive; a program is non-trivial when its answers with and without i differ on some input".into(),
            assumptions: vec![
                "alphabets contain only letters with one-to-one simple case mappings (no final sigma, Kelvin sign, dotted/dotless i)".into(),
                "under i a single character or a range inside a class matches an input character when the two are equal or case counterparts (item-level closure), then negation and subtraction apply; class escapes are unaffected".into(),
            ],
        }
    }
    fn run_chunk(&self, ctx: &Ctx, chunk: u64, out: &mut ChunkOut) {
        let (sp, maxlen) = space_for(ctx.tier);
        let (seg, lo, hi) = sp.locate(chunk);
        let scope_name = space::seg_scope_name(seg);
        if let SegKind::List { name: "flag strings" } = seg.kind {
            let n = common::flag_effect(out, "C11", 'i');
            out.sample(J::obj(vec![("flag_strings_probed", J::i(n as usize))]));
            return;
        }
        if let SegKind::List { name: "related" } = seg.kind {
            for i in lo..hi {
                self.related_block(out, &scope_name, (i * RELATED_BLOCK) as u32, ((i + 1) * RELATED_BLOCK) as u32);
            }
            return;
        }
        if let SegKind::List { .. } = seg.kind {
            let pairs = letter_pairs(&ctx.ucd);
            out.max("letter_pairs", pairs.len() as u64);
            if pairs.len() as u64 > N_PAIRS_HINT {
                out.inc("machinery_pair_list_truncated");
            }
            for i in lo..hi {
                if i as usize >= pairs.len() {
                    continue;
                }
                let (l, u) = pairs[i as usize];
                let mut pats: Vec<String> = vec![];
                for x in [l, u] {
                    pats.push(format!("{}", x));
                    pats.push(format!("[{}]", x));
                    pats.push(format!("[^{}]", x));
                    pats.push(format!("[{}-{}]", x, x));
                    pats.push(format!("[1{}-[1]]", x));
                    pats.push(format!("[{}-[{}]]", x, swap_case(x)));
                    pats.push(format!("({})\\1", x));
                    pats.push(format!("{}+1", x));
                    pats.push(format!("1*{}", x));
                    pats.push(format!("^{}$", x));
                    pats.push(format!("[\\p{{Lu}}{}]", if x == l { '1' } else { x }));
                    pats.push(format!("^[^\\p{{Lu}}1]$"));
                    pats.push(format!("[1-[\\p{{Ll}}]]|{}", x));
                    pats.push(format!("(?:({}|1)\\1)+", x));
                }
                pats.push("[\\p{Lu}_]".to_string());
                pats.push("[0-9\\p{Ll}]+".to_string());
                let mut inputs: Vec<String> = vec![];
                for a in [l, u].iter().chain(CASELESS.iter()) {
                    inputs.push(a.to_string());
                    for b in [l, u, '1'] {
                        inputs.push(format!("{}{}", a, b));
                    }
                }
                inputs.push(format!("{}{}11", l, u));
                inputs.push(format!("11{}{}", l, u));
                inputs.push(format!("{}{}{}{}", l, l, u, u));
                inputs.push(format!("{}1{}1", l, u));
                inputs.push(format!("{}{}11", l, l));
                inputs.push(format!("11{}{}", u, u));
                // multi-line line starts under i: the scan for the next line start stays case-blind
                for (pat, inp) in [(l, u), (u, l)] {
                    for (flags, want) in [("mi", true), ("m", false)] {
                        out.inc("states");
                        out.inc("validated");
                        let p = format!("^{}", pat);
                        if let Compiled::Ok(re) = common::compile(&p, flags, false) {
                            let input = format!("1\n{}", inp);
                            if let Out::Ok(got) = imp::is_match(&re, &input) {
                                if got != want {
                                    out.fail("C11", &Case::new(&scope_name, &p, flags).input(&input).api("is_match"), "LineStartCase", &want.to_string(), &got.to_string(), "a letter at the start of the second line, pattern anchored with ^ under flag m");
                                }
                            }
                        }
                    }
                }
                // literal flag q together with i: the literal is compared case-blind
                for (pat, inp) in [(l, u), (u, l)] {
                    for (flags, want) in [("qi", true), ("iq", true), ("q", false)] {
                        out.inc("states");
                        out.inc("validated");
                        if let Compiled::Ok(re) = common::compile(&format!("{}+", pat), flags, false) {
                            let input = format!("1{}+1", inp);
                            if let Out::Ok(got) = imp::is_match(&re, &input) {
                                if got != want {
                                    out.fail("C11", &Case::new(&scope_name, &format!("{}+", pat), flags).input(&input).api("is_match"), "LiteralFlagCase", &want.to_string(), &got.to_string(), "under q the pattern is a literal string; with i it is compared case-blind");
                                }
                            }
                        }
                    }
                }
                // a group recaptured in every iteration with a case-blind back-reference:
                // explicit oracle (every pair of characters equal or case counterparts)
                let doubled = [format!("{}{}", l, u), format!("{}{}11", l, u), format!("11{}{}", u, l), format!("{}{}{}1", l, u, l), format!("{}{}{}{}11", l, l, u, l), format!("1{}{}1", l, u), format!("bB{}{}", u, l), format!("{}{}Bb", l, l)];
                for pat in [r"^(?:(.)\1)+$", r"^(?:(\w)\1)+$", r"^(?:([^-])\1-?)+$"] {
                    for flags in ["", "i"] {
                        let re = match common::compile(pat, flags, false) {
                            Compiled::Ok(r) => r,
                            _ => {
                                out.inc("rejected_or_crash");
                                continue;
                            }
                        };
                        for inp in &doubled {
                            let cs: Vec<char> = inp.chars().collect();
                            let want = cs.len() % 2 == 0 && cs.chunks(2).all(|p| p[0] == p[1] || (flags == "i" && (swap_case(p[0]) == p[1] || swap_case(p[1]) == p[0])));
                            out.inc("states");
                            out.inc("validated");
                            if let Out::Ok(got) = imp::is_match(&re, inp) {
                                if got != want {
                                    out.fail("C11", &Case::new(&scope_name, pat, flags).input(inp).api("is_match"), "DoubledRun", &want.to_string(), &got.to_string(), "every pair of characters equal, or case counterparts under i");
                                }
                            }
                        }
                    }
                }
                for text in &pats {
                    self.one(ctx, out, &scope_name, text, &inputs);
                }
                out.sample(J::obj(vec![("letter_pair", J::s(format!("{} {}", l, u))), ("patterns", J::s(format!("{:?}", pats)))]));
            }
            return;
        }
        let sigma = match &seg.kind {
            SegKind::Ast { scope, .. } => crate::gen::scope(scope).sigma,
            _ => unreachable!(),
        };
        // layer parameter: 1 = restricted layer; >= 2 = input-length bound of a restricted layer
        let inputs = all_strings(&sigma, if seg.param >= 2 { seg.param } else { maxlen });
        let restricted = seg.param > 0;
        space::for_each_text(seg, lo, hi, &mut |_i, text| {
            if restricted {
                match common::ref_valid(text, ctx) {
                    Some(p) if !p.ast.has_nullable_loop() => {}
                    _ => {
                        out.inc("restricted_layer_skipped");
                        return;
                    }
                }
            }
            self.one(ctx, out, &scope_name, text, &inputs);
            out.sample(J::obj(vec![("pattern", J::s(text))]));
        });
    }
}

impl C11 {
    /// Every character c of the block that has a simple upper- or lower-case
    /// mapping (data: ICU's simple mappings, the crate regexml itself uses), with each
    /// of its counterparts x: as a literal, a class member, a one-character range
    /// and a back-reference, c must match x and x must match c under flag i, the
    /// negated class must not, and without the flag the literal must not.
    fn related_block(&self, out: &mut ChunkOut, scope: &str, lo: u32, hi: u32) {
        let cm = icu_casemap::CaseMapper::new();
        // a range of 0x2f00 code points (case closure of a large range)
        const BIG: (u32, u32) = (0x100, 0x3000);
        let big_pat = "^[\u{100}-\u{3000}]$";
        let big = common::compile(big_pat, "i", false);
        for cp in lo..hi {
            let c = match char::from_u32(cp) {
                Some(c) => c,
                None => continue,
            };
            let mut partners: Vec<char> = vec![];
            for x in [cm.simple_uppercase(c), cm.simple_lowercase(c)] {
                if x != c && !partners.contains(&x) {
                    partners.push(x);
                }
            }
            if partners.is_empty() {
                continue;
            }
            out.inc("related_characters");
            for x in partners.iter().copied() {
                // c inside the large range, its counterpart outside: the counterpart matches under i
                if (BIG.0..=BIG.1).contains(&cp) && !(BIG.0..=BIG.1).contains(&(x as u32)) {
                    if let Compiled::Ok(re) = &big {
                        out.inc("states");
                        out.inc("validated");
                        if let Out::Ok(false) = imp::is_match(re, &x.to_string()) {
                            out.fail("C11", &Case::new(scope, big_pat, "i").input(&x.to_string()).api("is_match"), "SimpleCounterpart", "true", "false", &format!("U+{:04X} is inside the range and is a simple case counterpart of the input", cp));
                        }
                    }
                }
            }
            for x in partners {
                for (p, i) in [(c, x), (x, c)] {
                    // (pattern, flags, input, expected)
                    let cases: Vec<(String, &str, String, bool)> = vec![
                        (format!("^{}$", p), "i", i.to_string(), true),
                        (format!("^{}$", p), "", i.to_string(), false),
                        (format!("^[{}]$", p), "i", i.to_string(), true),
                        (format!("^[{}-{}]$", p, p), "i", i.to_string(), true),
                        (format!("^[1{}-[1]]$", p), "i", i.to_string(), true),
                        (format!("^[^{}]$", p), "i", i.to_string(), false),
                        (format!("^({})\\1$", p), "i", format!("{}{}", p, i), true),
                        (format!("^(.)\\1$"), "i", format!("{}{}", p, i), true),
                        (format!("^{}+1$", p), "i", format!("{}{}1", i, p), true),
                        (format!("^1*{}$", p), "i", format!("11{}", i), true),
                        // unanchored: the literal-prefix scan and the first-character filter
                        (format!("{}", p), "i", format!("x{}", i), true),
                        (format!("{}1", p), "i", format!("xx{}{}1", p, i), true),
                        (format!("1{}", p), "i", format!("1x1{}", i), true),
                        (format!("[{}]1", p), "i", format!("x1{}1", i), true),
                    ];
                    for (pat, flags, inp, want) in cases {
                        out.inc("states");
                        let re = match common::compile(&pat, flags, false) {
                            Compiled::Ok(r) => r,
                            _ => {
                                out.inc("rejected_or_crash");
                                continue;
                            }
                        };
                        out.inc("validated");
                        if let Out::Ok(got) = imp::is_match(&re, &inp) {
                            if got != want {
                                out.fail("C11", &Case::new(scope, &pat, flags).input(&inp).api("is_match"), "SimpleCounterpart", &want.to_string(), &got.to_string(), "pattern character and input character are simple upper/lower-case counterparts (ICU simple mappings)");
                            }
                        }
                    }
                }
            }
        }
    }
    fn one(&self, ctx: &Ctx, out: &mut ChunkOut, scope: &str, text: &str, inputs: &[String]) {
        let parsed = match common::ref_valid(text, ctx) {
            Some(p) => p,
            None => return,
        };
        out.shape = parsed.ast.shape();
        let re_plain = match common::compile(text, "", false) {
            Compiled::Ok(r) => r,
            _ => {
                out.inc("rejected_or_crash");
                return;
            }
        };
        let re_i = match common::compile(text, "i", false) {
            Compiled::Ok(r) => r,
            _ => {
                out.inc("rejected_or_crash");
                return;
            }
        };
        let swapped = swap_pattern(text);
        let re_swapped_i = if common::ref_valid(&swapped, ctx).is_some() {
            match common::compile(&swapped, "i", false) {
                Compiled::Ok(r) => Some(r),
                _ => None,
            }
        } else {
            None
        };
        let has_backref = parsed.ast.has_backref();
        // Monotonicity (3) is only implied for patterns without negation or
        // subtraction ([^A] excludes a under i); the case-swap metamorphic
        // oracle (2) only where no case-sensitive class escape occurs
        // (\p{Lu} is unaffected by the flag).
        let positive = !text.contains("[^") && !text.contains("-[") && !text.contains(r"\P") && !text.contains(r"\D") && !text.contains(r"\W") && !text.contains(r"\S");
        let case_closed = !text.contains(r"\p") && !text.contains(r"\P");
        let mut differs = false;
        for inp in inputs {
            let chars: Vec<char> = inp.chars().collect();
            out.pin(&|| format!("{:?} {:?}", text, inp));
            out.inc("states");
            let g0 = imp::is_match(&re_plain, inp);
            let g1 = imp::is_match(&re_i, inp);
            let (g0, g1) = match (g0, g1) {
                (Out::Ok(a), Out::Ok(b)) => (a, b),
                _ => {
                    out.inc("inconclusive_crash");
                    continue;
                }
            };
            if g0 != g1 {
                differs = true;
            }
            out.inc("validated");
            // (1) reference language
            if !has_backref {
                for (flags, got) in [("", g0), ("i", g1)] {
                    let sem = Sem { s: &chars, f: Fl::parse(flags), ucd: &ctx.ucd };
                    let want = sem.lang_is_match(&parsed.ast);
                    if want != got {
                        out.fail(
                            "C11",
                            &Case::new(scope, text, flags).input(inp).api("is_match"),
                            if got { "WrongTrue" } else { "WrongFalse" },
                            &want.to_string(),
                            &got.to_string(),
                            "reference language",
                        );
                    }
                }
            }
            // (3) match without i => match with i
            if positive && g0 && !g1 {
                out.fail("C11", &Case::new(scope, text, "i").input(inp).api("is_match"), "LostUnderI", "true (matches without i)", "false", "");
            }
            // (2) metamorphic: swap input case
            let sw = swap_all(inp);
            if case_closed && sw != *inp {
                if let Out::Ok(g) = imp::is_match(&re_i, &sw) {
                    if g != g1 {
                        out.fail(
                            "C11",
                            &Case::new(scope, text, "i").input(inp).api("is_match"),
                            "InputCaseSwapChangesResult",
                            &format!("same answer for {:?} and {:?}", inp, sw),
                            &format!("{} vs {}", g1, g),
                            "",
                        );
                    }
                }
                // spans (non-nullable only: analyze Ok)
                if let (Out::Ok(a), Out::Ok(b)) = (imp::analyze(&re_i, inp), imp::analyze(&re_i, &sw)) {
                    let (sa, sb) = (imp::spans_from_analyze(&a), imp::spans_from_analyze(&b));
                    if sa != sb {
                        out.fail(
                            "C11",
                            &Case::new(scope, text, "i").input(inp).api("analyze"),
                            "InputCaseSwapChangesSpans",
                            &format!("{:?}", sa),
                            &format!("{:?} on {:?}", sb, sw),
                            "",
                        );
                    }
                }
            }
            // (2'') the tokenizer sees the same separators whatever their case
            if case_closed && sw != *inp {
                if let (Out::Ok(t1), Out::Ok(t2)) = (imp::tokenize(&re_i, inp), imp::tokenize(&re_i, &sw)) {
                    let l1: Vec<usize> = t1.iter().map(|t| t.chars().count()).collect();
                    let l2: Vec<usize> = t2.iter().map(|t| t.chars().count()).collect();
                    if l1 != l2 {
                        out.fail("C11", &Case::new(scope, text, "i").input(inp).api("tokenize"), "InputCaseSwapChangesTokens", &format!("token lengths {:?}", l1), &format!("{:?} on {:?}", l2, sw), "");
                    }
                }
            }
            // (2') metamorphic: swap pattern letter case
            if let (true, Some(rs)) = (case_closed, &re_swapped_i) {
                if let Out::Ok(g) = imp::is_match(rs, inp) {
                    if g != g1 {
                        out.fail(
                            "C11",
                            &Case::new(scope, text, "i").input(inp).api("is_match"),
                            "PatternCaseSwapChangesResult",
                            &format!("same answer as pattern {:?}", swapped),
                            &format!("{} vs {}", g1, g),
                            "",
                        );
                    }
                }
            }
        }
        if differs {
            out.inc("nontrivial");
        }
    }
}
