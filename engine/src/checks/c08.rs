//! C08 — compile-time optimisations never change any result.
//! Differential: `Regex::xpath(p, f)` against the same engine compiled through
//! the verification hook with every shortcut switched off, on all five API
//! observations, for every pattern of the scopes and a trigger family biased
//! to the shapes that fire each shortcut, under every flag subset.

use super::common;
use crate::core::{Case, Check, ChunkOut, Ctx, Plan, Tier};
use crate::imp::{self, Out, Surface};
use crate::space::{self, SegKind, Space};
use crate::util::{all_strings, FLAG_SUBSETS_IMS, J};
use regexml::verif::opts;

pub struct C08;

const SWITCHES: [(u32, &str); 7] = [
    (opts::NO_OPTIMIZE, "Operation::optimize pass"),
    (opts::NO_UNAMBIGUOUS, "unambiguous-repeat rewrite"),
    (opts::NO_PREFIX, "literal-prefix scan"),
    (opts::NO_INITIAL_CLASS, "first-character filter"),
    (opts::NO_MIN_LENGTH, "minimum-length cut-off"),
    (opts::NO_PRECONDITIONS, "positional preconditions"),
    (opts::NO_HASBOL, "start-anchor fast path"),
];

/// Trigger family: X op Y shapes with related / unrelated first sets, leading
/// literals / classes / anchors, fixed-count repeats, long minimum lengths.
pub fn triggers() -> Vec<String> {
    let xs = ["a", "b", "A", "1", ".", "[ab]", "[^a]", "\\d", "\\s", "[a-c]", "\\n", "z", "\u{e9}", "[x-z]"];
    let ys = ["a", "b", "A", "1", ".", "[ab]", "[^a]", "\\d", "^", "$", "\\n", "(a|b)", "ab", "\\S", "\\D", "\\P{Lu}", "[^b]", "z", "\\w"];
    let qs = ["*", "+", "?", "{2}", "{1,2}", "*?", "+?", "{2,}"];
    let mut v: Vec<String> = vec![];
    for x in xs {
        for q in qs {
            for y in ys {
                v.push(format!("{}{}{}", x, q, y));
                v.push(format!("^{}{}{}", x, q, y));
            }
        }
    }
    for lead in ["a", "ab", "aba", "[ab]", "\\d", "^", "^a", "^[ab]", "(?:^a)", "(^a)", "^(a)"] {
        for rest in ["", "b", "b*", "(?:a|b)c{2}", "a{3}", "b{2,3}", "(?:a|b)(?:a|b)b{2}", ".{3}b{2}", "(b+)", "$", "\\n^a"] {
            v.push(format!("{}{}", lead, rest));
        }
    }
    // a repeat followed by a term that can match empty, then something that
    // overlaps with the repeated character
    for x in ["a", "[ab]", ".", "\\d"] {
        for q in ["*", "+", "?", "{1,2}", "*?"] {
            for y in ["(?:b?|c)", "(b?)", "(?:b|)", "(?:^|b)", "(b*)", "(?:b*|c)", "(?:(?:b|cc)*|d)", "(?:$|b)", "(?:)", "()"] {
                for z in ["a", "1", "[ab]", "$"] {
                    v.push(format!("{}{}{}{}", x, q, y, z));
                }
            }
        }
    }
    // classes containing escaped metacharacters, next to groups (the analyze
    // nesting table scans the pattern text)
    for e in ["\\]", "\\[", "\\(", "\\)", "\\\\", "\\-", "\\^"] {
        for other in ["", "x", ")", "(", "a-c"] {
            let cls = format!("[{}{}]", e, other);
            let cls2 = format!("[{}{}]", other, e);
            let ncls = format!("[^{}{}]", e, other);
            for c in [&cls, &cls2, &ncls] {
                v.push(c.to_string());
                v.push(format!("{}+", c));
                v.push(format!("{}(a?)", c));
                v.push(format!("(a){}", c));
                v.push(format!("({}|a)b", c));
            }
        }
    }
    // a repeat before a group whose body starts with an optional variable-length term
    for x in ["a", "[ab]", "b"] {
        for q in ["*", "+", "?", "{1,2}"] {
            for y in [
                "(?:(?:bc|d)?a)+",
                "(?:(?:bb|b)?a)+",
                "(?:(?:bc|d)*a){1,}",
                "(?:(?:cd|c)?ab){2,3}",
                "((?:(?:bc|d)?a)+)",
                "(?:(?:a|$)*b|c)d",
                // ... optional by way of an alternative that can be empty
                "(?:(?:(?:ab)?|c)d)+",
                "(?:(?:a?|c)d)+",
                "(?:(?:|ab)d)+",
                "(?:(?:ab|)d){1,2}",
                "((?:(?:ab)?|c)d)+",
                "(?:(?:(?:ab)+|c|)d){1,}",
            ] {
                v.push(format!("{}{}{}", x, q, y));
                v.push(format!("x{}{}{}y", x, q, y));
            }
        }
    }
    // a repeat directly before a back-reference whose group may not have participated
    for p in [
        "(?:(a)|b)b*\\1b", "(a)?b+\\1b", "(a)*[bc]*\\1b", "^(?:(a)|b)c*\\1c$", "(a|ab|b)*c\\1", "^(a|ab|b)*\\1$", "(?:(a)|b)+b*\\1", "(a)?a*\\1a",
        "(?:(\\w)\\1)+", "^(?:(a|b)\\1)+$", "(?:([a-z])\\1-?)+",
    ] {
        v.push(p.to_string());
    }
    // a possibly-empty term before a start anchor (the line-start fast path under flag m)
    for x in ["\\s", "\\n", ".", "[^a]", "a", "(?:\\n|a)"] {
        for q in ["*", "?", "*?", "{0,2}"] {
            for z in ["b", "a", ".", "$", "(b)"] {
                v.push(format!("{}{}^{}", x, q, z));
            }
        }
    }
    // terms that compile to nothing in front of a repeat and its follower
    for pre in ["(?:)(?:)", "(?:)", "a{0}b{0}", "^*$*", "(?:){2}a{0}"] {
        for core in ["ba*a", "a*a", "b\\d+1", "[ab]*b", "a+ab", "a?a"] {
            v.push(format!("{}{}", pre, core));
        }
    }
    // ^ followed by a variable-length term, a mandatory alternation and a class
    for lead in ["^a*", "^a?", "^(a|b)", "^[ab]+"] {
        for mid in ["(b|c)", "(?:bc|de)", "c*", "(?:b|1)"] {
            for tail in ["[de]", ".", "\\d", "[ab]"] {
                v.push(format!("{}{}{}", lead, mid, tail));
            }
        }
    }
    // a block before a category that contains part of it (sets far beyond Latin-1)
    for x in ["\\p{IsThai}", "\\p{IsHebrew}", "\\p{IsGreek}", "[\u{e01}-\u{e5b}]"] {
        for q in ["+", "*", "{1,2}"] {
            for y in ["\\d", "\\p{L}", "\\w", "\\p{Lo}", "\\p{Nd}"] {
                v.push(format!("{}{}{}", x, q, y));
                v.push(format!("^{}{}{}$", x, q, y));
            }
        }
    }
    // alternations of three branches where a later one-character branch overlaps the start of an
    // earlier multi-character branch (merging or reordering branches changes the spans only)
    let br = ["a", "b", "bc", "ab", "ba", "[bc]"];
    for x in br {
        for y in br {
            for z in br {
                v.push(format!("{}|{}|{}", x, y, z));
                v.push(format!("(?:{}|{}|{})d", x, y, z));
            }
        }
    }
    for n in 1..=5 {
        v.push("a".repeat(n));
        v.push(format!("(?:a|b){{{}}}", n));
        v.push(format!("[ab]{{{},}}", n));
        v.push(format!(".{{{}}}a", n));
    }
    v.sort();
    v.dedup();
    v
}

/// Families of characters related by simple case mappings that are not one-to-one
/// (dotted / dotless i, long s, Kelvin sign, micro sign, final sigma, sharp s,
/// titlecase digraph): under flag i the first-character analysis and the matching
/// must use the same relation, else a repeat is wrongly made non-backtracking.
const CASE_FAMILIES: [&[char]; 7] = [
    &['i', 'I', '\u{130}', '\u{131}'],
    &['s', 'S', '\u{17f}'],
    &['k', 'K', '\u{212a}'],
    &['\u{b5}', '\u{3bc}', '\u{39c}'],
    &['\u{3c3}', '\u{3c2}', '\u{3a3}'],
    &['\u{df}', '\u{1e9e}'],
    &['\u{1c4}', '\u{1c5}', '\u{1c6}'],
];

/// The hand-picked families, then every set of three or more characters with the
/// same simple case folding (data: ICU, as used by regexml itself).
fn case_families(all: bool) -> Vec<Vec<char>> {
    let mut v: Vec<Vec<char>> = CASE_FAMILIES.iter().map(|f| f.to_vec()).collect();
    if all {
        let cm = icu_casemap::CaseMapper::new();
        let mut by_fold: std::collections::BTreeMap<char, Vec<char>> = Default::default();
        for c in (0u32..0x110000).filter_map(char::from_u32) {
            let f = cm.simple_fold(c);
            if f != c || cm.simple_uppercase(c) != c || cm.simple_lowercase(c) != c {
                by_fold.entry(f).or_default().push(c);
            }
        }
        for (_, fam) in by_fold {
            if fam.len() >= 3 && !v.contains(&fam) {
                v.push(fam);
            }
        }
    }
    v
}

/// (family index, pattern)
pub fn case_triggers(all: bool) -> Vec<(usize, String)> {
    let mut v = vec![];
    for (k, fam) in case_families(all).iter().enumerate() {
        for a in fam.iter() {
            for b in fam.iter() {
                for p in [
                    format!("{}*{}", a, b),
                    format!("{}+{}", a, b),
                    format!("{}?{}", a, b),
                    format!("{}*[{}]", a, b),
                    format!("[{}]*{}", a, b),
                    format!("[{}]+[{}]", a, b),
                    format!("^{}*?{}$", a, b),
                    format!("{}{{1,2}}{}1", a, b),
                ] {
                    v.push((k, p));
                }
            }
        }
    }
    v
}

fn space_for(tier: Tier) -> (Space, usize) {
    let mut s = Space::new();
    let t = triggers().len() as u64;
    match tier {
        Tier::Quick => {
            s.ast("K", 4, 64).ast("CL", 3, 64).ast("Q", 2, 64);
            s.ast_range("CL", 4, 4, 64, 2);
            s.ast_range("LP", 1, 4, 32, 5);
            s.ast_range("ALT", 1, 3, 32, 4);
            s.ast_range("FX", 1, 4, 32, 6).ast_range("FXA", 1, 4, 32, 6).ast_range("CLN", 1, 3, 32, 3).ast_range("QNA", 1, 4, 16, 11).ast_range("CLG", 1, 5, 32, 3).ast_range("OPTG", 1, 3, 32, 5);
            s.list("triggers", t, 16);
            s.list("case triggers", case_triggers(false).len() as u64, 16);
            (s, 3)
        }
        Tier::Thorough => {
            s.ast("K", 5, 64).ast("CL", 4, 64).ast("Q", 3, 64).ast("AN", 4, 64).ast("G", 4, 64);
            s.ast_range("LP", 1, 4, 32, 6);
            s.ast_range("ALT", 1, 4, 32, 4);
            s.ast_range("FX", 1, 4, 32, 6).ast_range("FXA", 1, 4, 32, 6).ast_range("CLN", 1, 4, 32, 4).ast_range("QNA", 1, 4, 16, 12).ast_range("CLG", 1, 5, 32, 4).ast_range("OPTG", 1, 5, 32, 4);
            s.ast_range("K", 6, 6, 512, 203).ast_range("CL", 5, 5, 128, 203).ast_range("AN", 5, 5, 128, 204);
            s.ast_range("KL", 1, 3, 16, 208).ast_range("KL", 4, 4, 32, 206);
            s.list("triggers", t, 16);
            s.list("case triggers", case_triggers(true).len() as u64, 16);
            (s, 4)
        }
    }
}

fn diff_api(a: &Surface, b: &Surface) -> Option<(&'static str, String, String)> {
    if a.is_match != b.is_match {
        return Some(("is_match", a.is_match.show(), b.is_match.show()));
    }
    if a.replace != b.replace {
        return Some(("replace_all", a.replace.show(), b.replace.show()));
    }
    if a.tokens != b.tokens {
        return Some(("tokenize", a.tokens.show(), b.tokens.show()));
    }
    if a.analyze != b.analyze {
        return Some(("analyze", a.analyze.show(), b.analyze.show()));
    }
    None
}

fn one_pattern(out: &mut ChunkOut, scope: &str, text: &str, inputs: &[String]) {
    for flags in FLAG_SUBSETS_IMS {
        let opt = imp::compile(text, flags, false);
        let un = imp::compile_opts(text, flags, false, opts::ALL_OFF);
        let (opt, un) = match (opt, un) {
            (Out::Ok(a), Out::Ok(b)) => (a, b),
            (a, b) => {
                if a.is_crash() && b.is_crash() {
                    out.inc("inconclusive_crash");
                } else if a.is_crash() != b.is_crash() {
                    out.inc("validated");
                    out.fail("C08", &Case::new(scope, text, flags).api("compile"), "OnlyOneSideCrashes", "the same outcome with and without optimisations", &format!("optimised: {} / all off: {}", a.map(|_| ()).show(), b.map(|_| ()).show()), "a panic or an exhausted step budget on one side only is a difference");
                } else if a.ok().is_some() != b.ok().is_some() {
                    out.inc("validated");
                    out.fail(
                        "C08",
                        &Case::new(scope, text, flags).api("compile"),
                        "CompileDiffers",
                        "same acceptance with and without optimisations",
                        &format!("optimised accepted={} unoptimised accepted={}", a.ok().is_some(), b.ok().is_some()),
                        "",
                    );
                }
                continue;
            }
        };
        out.inc("nontrivial");
        let optimised_shape = opt.verif_program() != un.verif_program();
        if optimised_shape {
            out.inc("programs_changed_by_optimisation");
        }
        for inp in inputs {
            out.pin(&|| format!("{:?} {:?} {:?}", text, flags, inp));
            let repl = "<$0|$1>";
            let a = imp::surface(&opt, inp, repl);
            let b = imp::surface(&un, inp, repl);
            out.inc("states");
            if a.any_crash() && b.any_crash() {
                // fuel exhaustion / panic on both sides is C05/C06's; inconclusive here
                out.inc("inconclusive_crash");
                continue;
            }
            if a.any_crash() != b.any_crash() {
                out.inc("validated");
                out.fail("C08", &Case::new(scope, text, flags).input(inp).repl(repl).api("all"), "OnlyOneSideCrashes", &format!("all off: {}", b.show()), &format!("optimised: {}", a.show()), "a panic or an exhausted step budget on one side only is a difference");
                continue;
            }
            out.inc("validated");
            if let Some((api, got, want)) = diff_api(&a, &b) {
                // name the culprit: re-enable one switch at a time
                let mut culprits = vec![];
                for (bit, name) in SWITCHES {
                    if let Out::Ok(re) = imp::compile_opts(text, flags, false, bit) {
                        let s = imp::surface(&re, inp, repl);
                        if !s.any_crash() && diff_api(&s, &b).is_none() {
                            culprits.push(name);
                        }
                    }
                }
                out.fail(
                    "C08",
                    &Case::new(scope, text, flags).input(inp).repl(repl).api(api),
                    "OptimisedDiffers",
                    &want,
                    &got,
                    &format!("expected = all optimisations off; switching off only one of {:?} restores agreement", culprits),
                );
            }
        }
    }
}

impl Check for C08 {
    fn id(&self) -> &'static str {
        "C08"
    }
    fn plan(&self, ctx: &Ctx) -> Plan {
        let (s, maxlen) = space_for(ctx.tier);
        Plan {
            chunks: s.chunks(),
            layer_of: s.layer_fn(),
            description: format!(
                "all five API observations of Regex::xpath(p,f) against Regex::verif_new(p,f, all shortcuts off) for every pattern AST and a {}-pattern trigger family x 8 flag subsets x every input of length <= {}: {}",
                triggers().len(),
                maxlen,
                s.describe()
            ),
            rule: "exhaustive differential comparison; a program is non-trivial when it compiles; programs_changed_by_optimisation counts those whose compiled form differs from the unoptimised one".into(),
            assumptions: vec![
                "the unoptimised engine is reached through the cfg(regexml_verif) hook Regex::verif_new (optimize pass, unambiguous rewrite, prefix, first-character class, minimum length, preconditions, HASBOL individually switchable)".into(),
                "the quantifier simplifications in ReCompiler::piece cannot be switched off (they keep fixed-length loops from spinning); that clause is decided against the reference language by C01 on scope Q".into(),
                "fuel exhaustion or panic on either side is inconclusive here (owned by C05/C06)".into(),
            ],
        }
    }
    fn run_chunk(&self, ctx: &Ctx, chunk: u64, out: &mut ChunkOut) {
        let (sp, maxlen) = space_for(ctx.tier);
        let (seg, lo, hi) = sp.locate(chunk);
        let scope_name = space::seg_scope_name(seg);
        if let SegKind::List { name: "case triggers" } = seg.kind {
            let all = ctx.tier == Tier::Thorough;
            let t = case_triggers(all);
            let fams = case_families(all);
            for i in lo..hi {
                let (k, text) = &t[i as usize];
                if common::ref_valid(text, ctx).is_none() {
                    out.inc("ref_invalid_skipped");
                    continue;
                }
                let mut sigma: Vec<char> = fams[*k].clone();
                sigma.push('1');
                let inputs = all_strings(&sigma, 3);
                one_pattern(out, &scope_name, text, &inputs);
                out.sample(J::obj(vec![("trigger_pattern", J::s(text))]));
            }
            return;
        }
        if let SegKind::List { .. } = seg.kind {
            let t = triggers();
            let inputs = all_strings(&['a', 'b', 'A', '1', '\n'], maxlen.min(3));
            let mut extra = inputs.clone();
            extra.extend(
                ["aaaa", "abab", "aaab", "ababb", "aabb1", "1111", "\n\na\n", "bbbbb", "z", "zz", "zzz", "zzy", "\u{e9}\u{e9}", "xyz", "bcc", "bb", "bbb", "cb", "abcab", "aabb", "aAbB", "xx-yy.", "\u{e51}\u{e52}", "\u{5d0}\u{5d1}", "\u{e01}\u{e51}", "\u{3b1}\u{3b2}", "a\n\nb", "b21", "abd", "bcd", "ade"]
                    .iter()
                    .map(|s| s.to_string()),
            );
            for i in lo..hi {
                let text = &t[i as usize];
                if common::ref_valid(text, ctx).is_none() {
                    out.inc("ref_invalid_skipped");
                    continue;
                }
                one_pattern(out, &scope_name, text, &extra);
                out.sample(J::obj(vec![("trigger_pattern", J::s(text))]));
            }
            return;
        }
        let sigma = match &seg.kind {
            SegKind::Ast { scope, .. } => crate::gen::scope(scope).sigma,
            _ => unreachable!(),
        };
        // layer parameter: input-length bound + 100 * restriction (see C01)
        let restriction = seg.param / 100;
        let maxlen = if seg.param % 100 > 0 { seg.param % 100 } else { maxlen };
        let inputs = all_strings(&sigma, maxlen);
        space::for_each_text(seg, lo, hi, &mut |_i, text| {
            let parsed = match common::ref_valid(text, ctx) {
                Some(p) => p,
                None => return,
            };
            if (restriction >= 1 && parsed.ast.has_nullable_loop()) || (restriction >= 2 && parsed.ast.quant_depth() >= 2) {
                out.inc("restricted_layer_skipped");
                return;
            }
            out.shape = parsed.ast.shape();
            one_pattern(out, &scope_name, text, &inputs);
            out.sample(J::obj(vec![("pattern", J::s(text))]));
        });
    }
}
