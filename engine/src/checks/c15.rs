//! C15 — replacement strings follow the $N and backslash rules exactly.
//! Exhaustive over ALL replacement strings up to a length bound over
//! {$, \, 0, 1, 2, 9, a} x patterns with 0, 1, 2, 9, 10 and 12 straight-line
//! groups (some optional and not participating) x inputs with 0, 1 and 2
//! matches; oracle: an independent expansion of the replacement using the
//! capture texts known by construction.

use crate::core::{Case, Check, ChunkOut, Ctx, Plan, Tier};
use crate::imp::{self, Out, EK};
use crate::space::Space;
use crate::util::J;

pub struct C15;

const ALPHA: [&str; 8] = ["$", "\\", "0", "1", "2", "9", "a", "\u{663}"];

struct Pat {
    text: &'static str,
    flags: &'static str,
    groups: usize,
    /// inputs with, per match, the capture texts (index 0 = whole match); None = did not participate
    inputs: Vec<(&'static str, Vec<Vec<Option<&'static str>>>, Vec<&'static str>)>,
}

/// (input, per-match captures, pieces between matches)
fn pats() -> Vec<Pat> {
    let twelve = "(a)(b)(c)(d)(e)(f)(g)(h)(i)(j)(k)(l)";
    let ten = "(a)(b)(c)(d)(e)(f)(g)(h)(i)(j)";
    let nine = "(a)(b)(c)(d)(e)(f)(g)(h)(i)";
    let caps = |s: &'static str, n: usize| -> Vec<Option<&'static str>> {
        let mut v = vec![Some(s)];
        for i in 0..n {
            v.push(Some(&s[i..i + 1]));
        }
        v
    };
    vec![
        // several matches through the start-anchor path: groups of an earlier
        // match must not leak into a later one
        Pat {
            text: "^(?:(a)|(b))",
            flags: "m",
            groups: 2,
            inputs: vec![
                ("x", vec![], vec!["x"]),
                ("a\nb", vec![vec![Some("a"), Some("a"), None], vec![Some("b"), None, Some("b")]], vec!["", "\n", ""]),
                ("b\na\nb", vec![vec![Some("b"), None, Some("b")], vec![Some("a"), Some("a"), None], vec![Some("b"), None, Some("b")]], vec!["", "\n", "\n", ""]),
            ],
        },
        Pat {
            text: "^(x)?(y)",
            flags: "m",
            groups: 2,
            inputs: vec![
                ("q", vec![], vec!["q"]),
                ("xy\ny", vec![vec![Some("xy"), Some("x"), Some("y")], vec![Some("y"), None, Some("y")]], vec!["", "\n", ""]),
                ("xy\ny\nxy", vec![vec![Some("xy"), Some("x"), Some("y")], vec![Some("y"), None, Some("y")], vec![Some("xy"), Some("x"), Some("y")]], vec!["", "\n", "\n", ""]),
            ],
        },
        // case-blind matches whose text differs from the pattern's spelling (the match has to
        // be found before the replacement string is looked at)
        Pat {
            text: "\u{3c3}",
            flags: "i",
            groups: 0,
            inputs: vec![("q", vec![], vec!["q"]), ("\u{391}\u{3a3}", vec![vec![Some("\u{3a3}")]], vec!["\u{391}", ""]), ("\u{3c3}-\u{3a3}", vec![vec![Some("\u{3c3}")], vec![Some("\u{3a3}")]], vec!["", "-", ""])],
        },
        Pat {
            text: "s(t)",
            flags: "i",
            groups: 1,
            inputs: vec![("q", vec![], vec!["q"]), ("a\u{17f}t", vec![vec![Some("\u{17f}t"), Some("t")]], vec!["a", ""]), ("ST.st", vec![vec![Some("ST"), Some("T")], vec![Some("st"), Some("t")]], vec!["", ".", ""])],
        },
        // line-anchored matches that consume their newline: every line is replaced
        Pat {
            text: "^a\\n",
            flags: "m",
            groups: 0,
            inputs: vec![("q", vec![], vec!["q"]), ("a\na\na\n", vec![vec![Some("a\n")], vec![Some("a\n")], vec![Some("a\n")]], vec!["", "", "", ""]), ("b\na\nab", vec![vec![Some("a\n")]], vec!["b\n", "ab"])],
        },
        // an optional group at the end of a counted body, given back while backtracking
        Pat {
            text: "(?:.(a)?){2}",
            flags: "",
            groups: 1,
            inputs: vec![("q", vec![], vec!["q"]), ("aa", vec![vec![Some("aa"), None]], vec!["", ""]), ("aaa-", vec![vec![Some("aaa"), Some("a")]], vec!["", "-"])],
        },
        // a repeated group whose selected path is only reached after backtracking into an
        // EARLIER iteration (a, b abandoned; abc taken): $1 is the whole last iteration
        Pat {
            text: "(a|b|abc)*d",
            flags: "",
            groups: 1,
            inputs: vec![
                ("q", vec![], vec!["q"]),
                ("abcd", vec![vec![Some("abcd"), Some("abc")]], vec!["", ""]),
                ("xabcd-abcd", vec![vec![Some("abcd"), Some("abc")], vec![Some("abcd"), Some("abc")]], vec!["x", "-", ""]),
            ],
        },
        Pat {
            text: "(?:(a|b|abc)(-)?)+d",
            flags: "",
            groups: 2,
            inputs: vec![("q", vec![], vec!["q"]), ("abcd", vec![vec![Some("abcd"), Some("abc"), None]], vec!["", ""]), ("a-abcd.", vec![vec![Some("a-abcd"), Some("abc"), Some("-")]], vec!["", "."])],
        },
        // groups that the compiler folds away still count (and number) as groups
        Pat {
            text: "(a){0}(b)",
            flags: "",
            groups: 2,
            inputs: vec![("q", vec![], vec!["q"]), ("xbx", vec![vec![Some("b"), None, Some("b")]], vec!["x", "x"])],
        },
        Pat {
            text: "(a)(b)(c)(d)(e)(f)(g)(h)(i)(j){0}",
            flags: "",
            groups: 10,
            inputs: vec![(
                "abcdefghi-",
                vec![vec![Some("abcdefghi"), Some("a"), Some("b"), Some("c"), Some("d"), Some("e"), Some("f"), Some("g"), Some("h"), Some("i"), None]],
                vec!["", "-"],
            )],
        },
        // a group captured by an attempt at an EARLIER start position that failed as a whole
        // contributes nothing to the match found later (optional groups in every spelling)
        Pat {
            text: "(a)??b(c)??d",
            flags: "",
            groups: 2,
            inputs: vec![("q", vec![], vec!["q"]), ("abx bcd", vec![vec![Some("bcd"), None, Some("c")]], vec!["abx ", ""]), ("abd-abx-bd", vec![vec![Some("abd"), Some("a"), None], vec![Some("bd"), None, None]], vec!["", "-abx-", ""])],
        },
        Pat {
            text: "(a)?bd",
            flags: "",
            groups: 1,
            inputs: vec![("q", vec![], vec!["q"]), ("abxbd", vec![vec![Some("bd"), None]], vec!["abx", ""]), ("abd.abx.bd", vec![vec![Some("abd"), Some("a")], vec![Some("bd"), None]], vec!["", ".abx.", ""])],
        },
        Pat {
            text: "(a){0,1}?bd",
            flags: "",
            groups: 1,
            inputs: vec![("q", vec![], vec!["q"]), ("abxbd", vec![vec![Some("bd"), None]], vec!["abx", ""])],
        },
        Pat {
            text: "(a)*bd",
            flags: "",
            groups: 1,
            inputs: vec![("q", vec![], vec!["q"]), ("aabxbd", vec![vec![Some("bd"), None]], vec!["aabx", ""])],
        },
        Pat {
            text: "(?:(a)|x)?b(?:(c)|y)?d",
            flags: "",
            groups: 2,
            inputs: vec![("q", vec![], vec!["q"]), ("abcx.byd", vec![vec![Some("byd"), None, None]], vec!["abcx.", ""])],
        },
        // a group captured on a path that is abandoned contributes nothing
        Pat {
            text: "(?:x|(a))b(c)",
            flags: "",
            groups: 2,
            inputs: vec![
                ("q", vec![], vec!["q"]),
                ("abxbc", vec![vec![Some("xbc"), None, Some("c")]], vec!["ab", ""]),
                ("abc-xbc", vec![vec![Some("abc"), Some("a"), Some("c")], vec![Some("xbc"), None, Some("c")]], vec!["", "-", ""]),
            ],
        },
        Pat {
            text: "(?:a|ab)(?:x|(b))d",
            flags: "",
            groups: 1,
            inputs: vec![
                ("q", vec![], vec!["q"]),
                ("abxd", vec![vec![Some("abxd"), None]], vec!["", ""]),
                ("abd.abxd", vec![vec![Some("abd"), Some("b")], vec![Some("abxd"), None]], vec!["", ".", ""]),
            ],
        },
 Pat {
            flags: "",
            text: "ab",
            groups: 0,
            inputs: vec![("xx", vec![], vec!["xx"]), ("xabx", vec![vec![Some("ab")]], vec!["x", "x"]), ("abab", vec![vec![Some("ab")], vec![Some("ab")]], vec!["", "", ""])],
        },
 Pat {
            flags: "",
            text: "(a)b",
            groups: 1,
            inputs: vec![("xx", vec![], vec!["xx"]), ("xabx", vec![vec![Some("ab"), Some("a")]], vec!["x", "x"]), ("abab", vec![vec![Some("ab"), Some("a")]; 2], vec!["", "", ""])],
        },
 Pat {
            flags: "",
            text: "(a)|(b)",
            groups: 2,
            inputs: vec![
                ("xx", vec![], vec!["xx"]),
                ("xbx", vec![vec![Some("b"), None, Some("b")]], vec!["x", "x"]),
                ("ab", vec![vec![Some("a"), Some("a"), None], vec![Some("b"), None, Some("b")]], vec!["", "", ""]),
            ],
        },
 Pat {
            flags: "",
            text: "(a)(x)?(b)",
            groups: 3,
            inputs: vec![("q", vec![], vec!["q"]), ("ab", vec![vec![Some("ab"), Some("a"), None, Some("b")]], vec!["", ""]), ("axb-ab", vec![vec![Some("axb"), Some("a"), Some("x"), Some("b")], vec![Some("ab"), Some("a"), None, Some("b")]], vec!["", "-", ""])],
        },
 Pat {
            flags: "",
            text: nine,
            groups: 9,
            inputs: vec![("zz", vec![], vec!["zz"]), ("abcdefghi", vec![caps("abcdefghi", 9)], vec!["", ""]), ("abcdefghi1abcdefghi", vec![caps("abcdefghi", 9); 2], vec!["", "1", ""])],
        },
 Pat {
            flags: "",
            text: ten,
            groups: 10,
            inputs: vec![("zz", vec![], vec!["zz"]), ("abcdefghij", vec![caps("abcdefghij", 10)], vec!["", ""]), ("-abcdefghij0abcdefghij", vec![caps("abcdefghij", 10); 2], vec!["-", "0", ""])],
        },
 Pat {
            flags: "",
            text: twelve,
            groups: 12,
            inputs: vec![("zz", vec![], vec!["zz"]), ("abcdefghijkl", vec![caps("abcdefghijkl", 12)], vec!["", ""]), ("abcdefghijkl$abcdefghijkl", vec![caps("abcdefghijkl", 12); 2], vec!["", "$", ""])],
        },
    ]
}

pub fn count(maxlen: u32) -> u64 {
    (0..=maxlen).map(|l| (ALPHA.len() as u64).pow(l)).sum()
}

pub fn repl_string(mut idx: u64) -> String {
    let k = ALPHA.len() as u64;
    let mut len = 0;
    let mut block = 1;
    while idx >= block {
        idx -= block;
        block *= k;
        len += 1;
    }
    let d = crate::util::nth_token_string(&ALPHA, len, idx);
    crate::gen::tokens_to_string(&ALPHA, &d)
}

/// Independent expansion per the property: None = invalid replacement string.
fn expand(r: &str, groups: usize, caps: &[Option<&str>]) -> Option<String> {
    let cs: Vec<char> = r.chars().collect();
    let mut out = String::new();
    let mut i = 0;
    while i < cs.len() {
        match cs[i] {
            '\\' => {
                match cs.get(i + 1) {
                    Some('\\') => out.push('\\'),
                    Some('$') => out.push('$'),
                    _ => return None,
                }
                i += 2;
            }
            '$' => {
                let d = match cs.get(i + 1) {
                    Some(d) if d.is_ascii_digit() => *d,
                    _ => return None,
                };
                let mut n = d as usize - '0' as usize;
                i += 2;
                if groups > 9 {
                    // the longest run of digits that forms a number not exceeding the number of groups
                    while let Some(d2) = cs.get(i).filter(|c| c.is_ascii_digit()) {
                        let m = n * 10 + (*d2 as usize - '0' as usize);
                        if m > groups {
                            break;
                        }
                        n = m;
                        i += 1;
                    }
                }
                if n <= groups {
                    if let Some(Some(t)) = caps.get(n) {
                        out.push_str(t);
                    }
                }
            }
            c => {
                out.push(c);
                i += 1;
            }
        }
    }
    Some(out)
}

fn space_for(tier: Tier) -> Space {
    let mut s = Space::new();
    match tier {
        Tier::Quick => s.list("replacements<=5", count(5), 64),
        Tier::Thorough => s.list("replacements<=7", count(7), 512),
    };
    s.list("long digit runs", LONG_RUNS.len() as u64, 4);
    s
}

/// `$` followed by digit runs that do not fit in 64 bits, or that exceed the group count
/// by many orders of magnitude.
pub const LONG_RUNS: [&str; 10] = [
    "$99999999999999999999",
    "$18446744073709551616",
    "$18446744073709551615",
    "$100000000000000000000",
    "$10000000000000000000000000000000000000000",
    "<$12345678901234567890123>",
    "$1099999999999999999999",
    "$009999999999999999999",
    "\\$99999999999999999999$1",
    "$99999999999999999999$",
];

impl Check for C15 {
    fn id(&self) -> &'static str {
        "C15"
    }
    fn plan(&self, ctx: &Ctx) -> Plan {
        let s = space_for(ctx.tier);
        Plan {
            chunks: s.chunks(),
            layer_of: s.layer_fn(),
            description: format!(
                "every replacement string over {:?} ({}) x {} patterns with 0, 1, 2, 3, 9, 10, 12 groups (optional / alternative groups that do not participate; two line-anchored patterns under flag m with three matches) x 3 inputs each (0, 1, 2-3 matches)",
                ALPHA,
                s.describe(),
                pats().len()
            ),
            rule: "exhaustive over the replacement alphabet; a replacement is non-trivial when it contains $ or a backslash; both outcome classes (valid / invalid replacement) occur".into(),
            assumptions: vec![
                "capture texts are known by construction of the straight-line patterns".into(),
                "an invalid replacement fails with InvalidReplacementString iff at least one match exists; without a match the input is returned unchanged".into(),
            ],
        }
    }
    fn run_chunk(&self, ctx: &Ctx, chunk: u64, out: &mut ChunkOut) {
        let sp = space_for(ctx.tier);
        let (_seg, lo, hi) = sp.locate(chunk);
        let pats = pats();
        let compiled: Vec<Option<regexml::Regex>> = pats.iter().map(|p| imp::compile(p.text, p.flags, false).ok().map(|_| ()).and_then(|_| regexml::Regex::xpath(p.text, p.flags).ok())).collect();
        let long_runs = crate::space::seg_scope_name(_seg) == "long digit runs";
        for idx in lo..hi {
            let r = if long_runs { LONG_RUNS[idx as usize].to_string() } else { repl_string(idx) };
            if r.contains('$') || r.contains('\\') {
                out.inc("nontrivial");
            }
            for (pi, p) in pats.iter().enumerate() {
                let re = match &compiled[pi] {
                    Some(re) => re,
                    None => {
                        out.inc("rejected_valid");
                        continue;
                    }
                };
                for (inp, matches, pieces) in &p.inputs {
                    out.inc("states");
                    out.pin(&|| format!("{:?} {:?} {:?}", p.text, inp, r));
                    let want: Result<String, ()> = if matches.is_empty() {
                        Ok(inp.to_string())
                    } else {
                        let mut s = String::new();
                        let mut ok = true;
                        for (k, caps) in matches.iter().enumerate() {
                            s.push_str(pieces[k]);
                            match expand(&r, p.groups, caps) {
                                Some(e) => s.push_str(&e),
                                None => {
                                    ok = false;
                                    break;
                                }
                            }
                        }
                        s.push_str(pieces[matches.len()]);
                        if ok {
                            Ok(s)
                        } else {
                            Err(())
                        }
                    };
                    let got = imp::replace_all(re, inp, &r);
                    if got.is_crash() {
                        out.inc("inconclusive_crash");
                        continue;
                    }
                    out.inc("validated");
                    let case = Case::new("REPL", p.text, p.flags).input(inp).repl(&r).api("replace_all");
                    match (&want, &got) {
                        (Ok(w), Out::Ok(g)) if w == g => out.inc("expect_ok"),
                        (Err(()), Out::Err(EK::InvalidReplacementString)) => out.inc("expect_invalid"),
                        (Ok(w), g) => out.fail("C15", &case, "WrongExpansion", &format!("Ok({:?})", w), &g.show(), ""),
                        (Err(()), g) => out.fail("C15", &case, "InvalidReplacementAccepted", "Err(InvalidReplacementString)", &g.show(), ""),
                    }
                }
            }
            out.sample(J::obj(vec![("replacement", J::s(&r))]));
        }
    }
}
