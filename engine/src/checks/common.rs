//! Helpers shared by the checks.

use crate::core::Ctx;
use crate::imp::{self, Out, EK};
use crate::refparse::{self, Dialect, Parsed, Verdict};
use crate::sem::{Caps, Fl, Paths, Sem};
use regexml::{AnalyzeEntry, Regex};

pub fn ref_valid(text: &str, ctx: &Ctx) -> Option<Parsed> {
    match refparse::parse(text, Dialect::XPath, &ctx.ucd) {
        Verdict::Valid(p) => Some(p),
        _ => None,
    }
}

/// Does the reference say the regex matches the zero-length string?
/// None = reference inconclusive (budget).
pub fn ref_nullable(p: &Parsed, fl: Fl, ctx: &Ctx) -> Option<bool> {
    let empty: Vec<char> = vec![];
    if p.ast.has_backref() {
        let paths = Paths::new(&empty, fl, &ctx.ucd);
        paths.exists(&p.ast, p.groups).ok()
    } else {
        let sem = Sem {
            s: &empty,
            f: fl,
            ucd: &ctx.ucd,
        };
        Some(sem.lang_is_match(&p.ast))
    }
}

pub enum Compiled {
    Ok(Regex),
    /// the compiler rejected a pattern the reference calls valid (C07's business)
    Rejected,
    Crash,
}

pub fn compile(text: &str, flags: &str, xsd: bool) -> Compiled {
    match imp::compile(text, flags, xsd) {
        Out::Ok(re) => Compiled::Ok(re),
        Out::Err(_) => Compiled::Rejected,
        _ => Compiled::Crash,
    }
}

/// The three scan loops' match spans (None where the API did not return Ok).
pub struct Spans {
    pub analyze: Out<Vec<AnalyzeEntry>>,
    pub from_analyze: Option<Vec<(usize, usize)>>,
    pub tokens: Out<Vec<String>>,
    pub from_replace: Out<Vec<(usize, usize)>>,
}

pub fn spans(re: &Regex, input: &str) -> Spans {
    let analyze = imp::analyze(re, input);
    let from_analyze = analyze.ok().map(|v| imp::spans_from_analyze(v));
    Spans {
        from_analyze,
        analyze,
        tokens: imp::tokenize(re, input),
        from_replace: imp::spans_from_replace(re, input),
    }
}

pub fn is_empty_err<T>(o: &Out<T>) -> bool {
    matches!(o, Out::Err(EK::MatchesEmptyString))
}

/// Reference spans of successive matches (ordered semantics).
pub fn ref_scan(p: &Parsed, chars: &[char], fl: Fl, ctx: &Ctx) -> Option<Vec<(usize, usize, Caps)>> {
    let paths = Paths::new(chars, fl, &ctx.ucd);
    paths.scan(&p.ast, p.groups).ok()
}

pub fn substr(chars: &[char], a: usize, b: usize) -> String {
    chars[a..b].iter().collect()
}

pub fn show_spans(v: &[(usize, usize)]) -> String {
    format!("{:?}", v)
}
