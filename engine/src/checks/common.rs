//! Helpers shared by the checks.

use crate::core::{Case, ChunkOut, Ctx};
use crate::imp::{self, Out, EK};
use crate::refparse::{self, Dialect, Parsed, Verdict};
use crate::sem::{Caps, Fl, Paths, Sem};
use regexml::{AnalyzeEntry, Regex};

pub fn ref_valid(text: &str, ctx: &Ctx) -> Option<Parsed> {
    match refparse::parse(text, Dialect::XPath, &ctx.ucd) {
        Verdict::Valid(p) => Some(p),
        _ => None,
    }
}

/// Does the reference say the regex matches the zero-length string?
/// None = reference inconclusive (budget).
pub fn ref_nullable(p: &Parsed, fl: Fl, ctx: &Ctx) -> Option<bool> {
    let empty: Vec<char> = vec![];
    if p.ast.has_backref() {
        let paths = Paths::new(&empty, fl, &ctx.ucd);
        paths.exists(&p.ast, p.groups).ok()
    } else {
        let sem = Sem {
            s: &empty,
            f: fl,
            ucd: &ctx.ucd,
        };
        Some(sem.lang_is_match(&p.ast))
    }
}

pub enum Compiled {
    Ok(Regex),
    /// the compiler rejected a pattern the reference calls valid (C07's business)
    Rejected,
    Crash,
}

pub fn compile(text: &str, flags: &str, xsd: bool) -> Compiled {
    match imp::compile(text, flags, xsd) {
        Out::Ok(re) => Compiled::Ok(re),
        Out::Err(_) => Compiled::Rejected,
        _ => Compiled::Crash,
    }
}

/// The three scan loops' match spans (None where the API did not return Ok).
pub struct Spans {
    pub analyze: Out<Vec<AnalyzeEntry>>,
    pub from_analyze: Option<Vec<(usize, usize)>>,
    pub tokens: Out<Vec<String>>,
    pub from_replace: Out<Vec<(usize, usize)>>,
}

pub fn spans(re: &Regex, input: &str) -> Spans {
    let analyze = imp::analyze(re, input);
    let from_analyze = analyze.ok().map(|v| imp::spans_from_analyze(v));
    Spans {
        from_analyze,
        analyze,
        tokens: imp::tokenize(re, input),
        from_replace: imp::spans_from_replace(re, input),
    }
}

pub fn is_empty_err<T>(o: &Out<T>) -> bool {
    matches!(o, Out::Err(EK::MatchesEmptyString))
}

/// Reference spans of successive matches (ordered semantics).
pub fn ref_scan(p: &Parsed, chars: &[char], fl: Fl, ctx: &Ctx) -> Option<Vec<(usize, usize, Caps)>> {
    let paths = Paths::new(chars, fl, &ctx.ucd);
    paths.scan(&p.ast, p.groups).ok()
}

pub fn substr(chars: &[char], a: usize, b: usize) -> String {
    chars[a..b].iter().collect()
}

pub fn show_spans(v: &[(usize, usize)]) -> String {
    format!("{:?}", v)
}


/// Every valid flag string of up to four characters over `s m i x q ; g k K` (the
/// letters after ';' are engine-specific options without effect): the flag
/// `letter` must act exactly when it occurs before the ';', whatever else the
/// string contains. Returns the number of flag strings visited.
pub fn flag_effect(out: &mut ChunkOut, prop: &'static str, letter: char) -> u64 {
    const L: [&str; 9] = ["s", "m", "i", "x", "q", ";", "g", "k", "K"];
    let mut n = 0;
    for len in 0..=4usize {
        let total = (L.len() as u64).pow(len as u32);
        for idx in 0..total {
            let d = crate::util::nth_token_string(&L, len, idx);
            let f = crate::gen::tokens_to_string(&L, &d);
            if crate::checks::c07::ref_flags(&f) != Some(true) && !(f.contains(';') && f.split(';').next().unwrap().chars().all(|c| "smixq".contains(c)) && f.splitn(2, ';').nth(1).unwrap().chars().all(|c| "gkK".contains(c))) {
                continue;
            }
            let head = f.split(';').next().unwrap();
            let has = |c: char| head.contains(c);
            for xsd in [false, true] {
                if xsd && has('q') {
                    continue;
                }
                // (pattern, input, expected)
                let probes: Vec<(&str, &str, bool)> = match letter {
                    'i' => vec![("Ab", "ab", has('i')), ("Ab", "Ab", true)],
                    'm' if !has('q') && !xsd => vec![("^b", "a\nb", has('m')), ("a$", "a\nb", has('m'))],
                    's' if !has('q') => vec![("a.b", "a\nb", has('s')), ("a.b", "a\rb", has('s')), ("a.b", "axb", true)],
                    'x' if has('q') => vec![("a b", "ab", false), ("a b", "a b", true)],
                    'x' => vec![("a b", "ab", has('x')), ("a b", "a b", !has('x')), ("[a ]b", " b", true)],
                    'q' if !xsd => vec![("a.b|c", "a.b|c", true), ("a.b|c", "axb", !has('q')), ("a.b|c", "c", !has('q'))],
                    _ => vec![],
                };
                for (pat, inp, want) in probes {
                    out.inc("states");
                    n += 1;
                    match imp::compile(pat, &f, xsd) {
                        Out::Ok(re) => {
                            if let Out::Ok(got) = imp::is_match(&re, inp) {
                                out.inc("validated");
                                if got != want {
                                    out.fail(prop, &Case::new("FLAGS", pat, &f).xsd(xsd).input(inp).api("is_match"), "FlagEffect", &want.to_string(), &got.to_string(), &format!("flag {} {} in the flag string", letter, if has(letter) { "occurs" } else { "does not occur" }));
                                }
                            }
                        }
                        o if o.is_crash() => out.inc("inconclusive_crash"),
                        _ => out.inc("flag_string_rejected_see_C07"),
                    }
                }
            }
        }
    }
    n
}
