//! C04 — replace_all, tokenize and analyze partition the input consistently.
//! Model-free: the three scan loops are compared with each other on every
//! non-nullable pattern of the scopes x inputs, in both dialects, plus the
//! span-set family: on the input `abcdef` every set of non-overlapping
//! non-empty spans is realised by the alternation of its substrings.

use super::common::{self, Compiled};
use crate::core::{Case, Check, ChunkOut, Ctx, Plan, Tier};
use crate::imp::{self, Out};
use crate::sem::Fl;
use crate::space::{self, SegKind, Space};
use crate::util::{all_strings, J};
use regexml::{AnalyzeEntry, Regex};

pub struct C04;

const SPANSET_INPUT: &str = "abcdef";

/// All sets of non-overlapping non-empty spans of a string of length n,
/// encoded as a label per character: 0 = outside, k>0 = member of a span;
/// adjacent spans are distinguished by a boundary bit. We enumerate
/// compositions: each position either continues the previous segment or
/// starts a new one, and each segment is a match or a gap (no two adjacent
/// gaps). Count for n = 6: 1 + sum ... computed by enumeration.
fn spansets(n: usize) -> Vec<Vec<(usize, usize)>> {
    // enumerate all segmentations (2^(n-1)) x match/gap labelling, dropping
    // labellings with adjacent gaps (they denote the same span set)
    let mut out = vec![];
    for cut in 0..(1u32 << (n - 1)) {
        let mut segs = vec![];
        let mut st = 0;
        for i in 0..n - 1 {
            if cut & (1 << i) != 0 {
                segs.push((st, i + 1));
                st = i + 1;
            }
        }
        segs.push((st, n));
        let k = segs.len();
        'lab: for lab in 0..(1u32 << k) {
            let mut spans = vec![];
            for (j, s) in segs.iter().enumerate() {
                let is_match = lab & (1 << j) != 0;
                if !is_match && j > 0 && lab & (1 << (j - 1)) == 0 {
                    continue 'lab;
                }
                if is_match {
                    spans.push(*s);
                }
            }
            out.push(spans);
        }
    }
    out.sort();
    out.dedup();
    out
}

fn space_for(tier: Tier) -> (Space, usize) {
    let mut s = Space::new();
    let n = spansets(SPANSET_INPUT.len()).len() as u64;
    match tier {
        Tier::Quick => {
            s.ast("K", 5, 64).ast("CL", 3, 64).ast("U", 3, 64).ast("GCM", 5, 64).ast("GCE", 3, 64).ast("CAPQ", 5, 64).ast("ALTC", 5, 64).ast("AN", 3, 64).ast("NESTN", 4, 64).ast("CAPR", 4, 64).ast("OPTG", 5, 64).ast("CI", 2, 64);
            s.ast_range("ANL", 1, 3, 32, 6);
            s.ast_range("LP", 1, 3, 32, 5);
            s.list("spansets", n, 64);
            s.list("literals under q", 8 + 64 + 512, 16);
            s.list("case families under i", 7, 1);
            (s, 4)
        }
        Tier::Thorough => {
            s.ast("K", 5, 64).ast("CL", 4, 64).ast("U", 4, 64).ast("GC", 5, 64).ast("GCM", 5, 64).ast("GCE", 4, 64).ast("CAPQ", 5, 64).ast("ALTC", 6, 64).ast("AN", 4, 64).ast("NESTN", 5, 64).ast("CAPR", 4, 64).ast("OPTG", 5, 64).ast("CI", 3, 64);
            s.ast_range("ANL", 1, 3, 32, 6);
            s.ast_range("LP", 1, 4, 32, 6);
            s.list("spansets", n, 64);
            s.list("literals under q", 8 + 64 + 512, 16);
            s.list("case families under i", 7, 1);
            (s, 4)
        }
    }
}

fn join(tokens: &[String], sep: &str) -> String {
    tokens.join(sep)
}

/// The model-free consistency judgement, reported under property `prop` (C13 uses it for literals).
#[allow(clippy::too_many_arguments)]
pub fn judge_as(prop: &'static str, out: &mut ChunkOut, scope: &str, text: &str, flags: &str, xsd: bool, re: &Regex, inp: &str) {
    let chars: Vec<char> = inp.chars().collect();
    let base = Case::new(scope, text, flags).xsd(xsd).input(inp);
    let an = imp::analyze(re, inp);
    let tk = imp::tokenize(re, inp);
    let r0 = imp::replace_all(re, inp, "$0");
    out.inc("states");
    if an.is_crash() && tk.is_crash() && r0.is_crash() {
        out.inc("inconclusive_crash");
        return;
    }
    if an.is_crash() || tk.is_crash() || r0.is_crash() {
        // the three loops are driven by one sequence of spans: one of them failing alone is a disagreement
        out.inc("validated");
        out.fail(prop, &base.clone().api("all"), "OneApiCrashes", "the three APIs accept or reject together", &format!("analyze={} tokenize={} replace_all={}", an.show(), tk.show(), r0.show()), "a panic or an exhausted step budget in some of the three only");
        return;
    }
    let (an, tk, r0) = match (an, tk, r0) {
        (Out::Ok(a), Out::Ok(t), Out::Ok(r)) => (a, t, r),
        (a, t, r) => {
            // a non-nullable regex must not be rejected by one API and accepted by another
            let ea = common::is_empty_err(&a);
            let et = common::is_empty_err(&t) || inp.is_empty();
            let er = common::is_empty_err(&r);
            if ea && er && et {
                out.inc("impl_says_nullable_see_C16");
            } else {
                out.inc("validated");
                out.fail(
                    prop,
                    &base.clone().api("all"),
                    "ApisDisagreeOnError",
                    "the three APIs accept or reject together",
                    &format!("analyze={} tokenize={} replace_all={}", a.show(), t.show(), r.show()),
                    "",
                );
            }
            return;
        }
    };
    out.inc("validated");
    // 1. analyze texts concatenate to the input
    let cat: String = an.iter().map(imp::entry_text).collect();
    if cat != inp {
        out.fail(prop, &base.clone().api("analyze"), "AnalyzeNotPartition", inp, &cat, "concatenated analyze texts");
        return;
    }
    // no empty NonMatch entries, no two adjacent NonMatch entries
    for w in an.windows(2) {
        if matches!((&w[0], &w[1]), (AnalyzeEntry::NonMatch(_), AnalyzeEntry::NonMatch(_))) {
            out.fail(prop, &base.clone().api("analyze"), "AdjacentNonMatches", "alternating entries", &format!("{:?}", an), "");
            return;
        }
    }
    let spans = imp::spans_from_analyze(&an);
    // 2. tokens = pieces between the analyze matches
    let mut want_tokens = vec![];
    if !inp.is_empty() {
        let mut pos = 0;
        for (st, en) in &spans {
            want_tokens.push(common::substr(&chars, pos, *st));
            pos = *en;
        }
        want_tokens.push(common::substr(&chars, pos, chars.len()));
    }
    if tk != want_tokens {
        out.fail(
            prop,
            &base.clone().api("tokenize"),
            "TokensDisagreeWithAnalyze",
            &format!("{:?}", want_tokens),
            &format!("{:?}", tk),
            &format!("analyze spans {:?}", spans),
        );
    }
    // under flag q the replacement is a plain string: "$0" is not the match
    let literal = flags.split(';').next().unwrap_or("").contains('q');
    // 3. replace_all with $0 is the identity
    if !literal && r0 != inp {
        out.fail(prop, &base.clone().repl("$0").api("replace_all"), "ReplaceDollar0NotIdentity", inp, &r0, "");
    }
    // 4. replace_all with a metacharacter-free replacement = tokens joined
    for r in ["", "x", "\u{b7}\u{b7}"] {
        match imp::replace_all(re, inp, r) {
            Out::Ok(got) => {
                let want = if inp.is_empty() { String::new() } else { join(&want_tokens, r) };
                if got != want {
                    out.fail(
                        prop,
                        &base.clone().repl(r).api("replace_all"),
                        "ReplaceDisagreesWithAnalyze",
                        &want,
                        &got,
                        &format!("analyze spans {:?}", spans),
                    );
                }
            }
            o => {
                if o.is_crash() {
                    out.inc("inconclusive_crash");
                } else {
                    out.fail(prop, &base.clone().repl(r).api("replace_all"), "ApisDisagreeOnError", "Ok", &o.show(), "");
                }
            }
        }
    }
    // 5. spans via marker replacement
    if let (false, Out::Ok(rs)) = (literal, imp::spans_from_replace(re, inp)) {
        if rs != spans {
            out.fail(
                prop,
                &base.clone().repl("\u{1}$0\u{2}").api("replace_all"),
                "ReplaceSpansDisagreeWithAnalyze",
                &format!("{:?}", spans),
                &format!("{:?}", rs),
                "",
            );
        }
    }
}

pub fn judge(out: &mut ChunkOut, scope: &str, text: &str, flags: &str, xsd: bool, re: &Regex, inp: &str) {
    judge_as("C04", out, scope, text, flags, xsd, re, inp)
}

impl Check for C04 {
    fn id(&self) -> &'static str {
        "C04"
    }
    fn plan(&self, ctx: &Ctx) -> Plan {
        let (s, maxlen) = space_for(ctx.tier);
        Plan {
            chunks: s.chunks(),
            layer_of: s.layer_fn(),
            description: format!(
                "analyze / tokenize / replace_all compared with each other for every non-nullable pattern AST x flags \"\", \"i\", \"ms\" x every input of length <= {} (alphabets with U+1F600 and a combining mark), under both dialects where XSD accepts the pattern; plus the span-set family ({} span sets on \"{}\", each realised by an alternation of its substrings): {}",
                maxlen,
                spansets(SPANSET_INPUT.len()).len(),
                SPANSET_INPUT,
                s.describe()
            ),
            rule: "exhaustive; model-free self-consistency; a program is non-trivial when at least one input has a match".into(),
            assumptions: vec![
                "nullable regexes are excluded by the reference (C16 owns the error path); crashes are C05/C06's".into(),
                "the span-set family drives the three loops through every possible sequence of matcher answers on a 6-character input (adjacent matches, match at 0, match at the end, none)".into(),
            ],
        }
    }
    fn run_chunk(&self, ctx: &Ctx, chunk: u64, out: &mut ChunkOut) {
        let (sp, maxlen) = space_for(ctx.tier);
        let (seg, lo, hi) = sp.locate(chunk);
        let scope_name = space::seg_scope_name(seg);
        if let SegKind::List { name: "spansets" } = seg.kind {
            let all = spansets(SPANSET_INPUT.len());
            let chars: Vec<char> = SPANSET_INPUT.chars().collect();
            for i in lo..hi {
                let spans = &all[i as usize];
                if spans.is_empty() {
                    continue;
                }
                // alternation of the substrings, longest first so that ordered choice selects them
                let mut subs: Vec<String> = spans.iter().map(|(a, b)| common::substr(&chars, *a, *b)).collect();
                subs.sort_by(|a, b| b.len().cmp(&a.len()).then(a.cmp(b)));
                subs.dedup();
                let text = subs.join("|");
                for xsd in [false, true] {
                    if let Compiled::Ok(re) = common::compile(&text, "", xsd) {
                        out.inc("nontrivial");
                        judge(out, &scope_name, &text, "", xsd, &re, SPANSET_INPUT);
                        // and the matcher's answers must be the intended spans when they are unambiguous
                        if let Out::Ok(an) = imp::analyze(&re, SPANSET_INPUT) {
                            let got = imp::spans_from_analyze(&an);
                            let covered: usize = got.iter().map(|(a, b)| b - a).sum();
                            let intended: usize = spans.iter().map(|(a, b)| b - a).sum();
                            if covered < intended {
                                // the leftmost-first scan can only merge or extend, never lose coverage
                                out.inc("spanset_scan_covers_less");
                            }
                        }
                    }
                }
                out.sample(J::obj(vec![("pattern", J::s(&text)), ("input", J::s(SPANSET_INPUT)), ("intended_spans", J::s(format!("{:?}", spans)))]));
            }
            return;
        }
        if let SegKind::List { name: "case families under i" } = seg.kind {
            // characters whose case relations are not ASCII-like, as literals, classes and
            // prefixes of longer patterns: the three scan APIs must still agree
            const FAMILIES: [&[char]; 7] = [
                &['i', 'I', '\u{130}', '\u{131}'],
                &['s', 'S', '\u{17f}'],
                &['k', 'K', '\u{212a}'],
                &['\u{b5}', '\u{3bc}', '\u{39c}'],
                &['\u{3c3}', '\u{3c2}', '\u{3a3}'],
                &['\u{df}', '\u{1e9e}'],
                &['\u{1c4}', '\u{1c5}', '\u{1c6}'],
            ];
            for i in lo..hi {
                let fam = FAMILIES[i as usize];
                let mut sigma: Vec<char> = fam.to_vec();
                sigma.push('t');
                sigma.push('\u{391}');
                let inputs = all_strings(&sigma, 3);
                for a in fam {
                    for text in [format!("{}", a), format!("{}(t)", a), format!("[{}]", a), format!("{}+", a), format!("(?:{}|t)t", a), format!("t{}", a)] {
                        for flags in ["i", "", "is"] {
                            if let Compiled::Ok(re) = common::compile(&text, flags, false) {
                                out.inc("nontrivial");
                                for inp in &inputs {
                                    out.pin(&|| format!("{:?} {:?} {:?}", text, flags, inp));
                                    judge(out, &scope_name, &text, flags, false, &re, inp);
                                }
                            }
                        }
                    }
                }
                out.sample(J::obj(vec![("family", J::s(fam.iter().collect::<String>()))]));
            }
            return;
        }
        if let SegKind::List { name: "literals under q" } = seg.kind {
            // every string of 1..3 characters over the alphabet as a literal pattern
            const QA: [&str; 8] = ["a", "A", "b", ".", "*", "$", "\\", "("];
            let inputs_base = all_strings(&['a', 'A', 'b', '.'], 3);
            for i in lo..hi {
                let (len, idx) = if i < 8 { (1, i) } else if i < 72 { (2, i - 8) } else { (3, i - 72) };
                let d = crate::util::nth_token_string(&QA, len, idx);
                let text = crate::gen::tokens_to_string(&QA, &d);
                let mut inputs = inputs_base.clone();
                inputs.push(format!("{}{}", text, text));
                inputs.push(format!("x{}y{}", text, text.to_uppercase()));
                inputs.push(format!("{}-{}", text.to_lowercase(), text));
                for flags in ["q", "qi", "qs", "qim"] {
                    if let Compiled::Ok(re) = common::compile(&text, flags, false) {
                        out.inc("nontrivial");
                        for inp in &inputs {
                            out.pin(&|| format!("{:?} {:?} {:?}", text, flags, inp));
                            judge(out, &scope_name, &text, flags, false, &re, inp);
                        }
                    }
                }
                out.sample(J::obj(vec![("literal_pattern", J::s(&text)), ("flags", J::s("q qi qs qim"))]));
            }
            return;
        }
        let sigma = match &seg.kind {
            SegKind::Ast { scope, .. } => crate::gen::scope(scope).sigma,
            _ => unreachable!(),
        };
        let maxlen = if seg.param > 0 { seg.param } else { maxlen };
        let inputs = all_strings(&sigma, maxlen);
        space::for_each_text(seg, lo, hi, &mut |_i, text| {
            let parsed = match common::ref_valid(text, ctx) {
                Some(p) => p,
                None => return,
            };
            if parsed.ast.has_backref() {
                return;
            }
            out.shape = parsed.ast.shape();
            for flags in ["", "i", "ms"] {
                let fl = Fl::parse(flags);
                if common::ref_nullable(&parsed, fl, ctx) != Some(false) {
                    out.inc("nullable_skipped");
                    continue;
                }
                for xsd in [false, true] {
                    let re = match common::compile(text, flags, xsd) {
                        Compiled::Ok(re) => re,
                        _ => continue,
                    };
                    out.inc("nontrivial");
                    for inp in &inputs {
                        out.pin(&|| format!("{:?} {:?} xsd={} {:?}", text, flags, xsd, inp));
                        judge(out, &scope_name, text, flags, xsd, &re, inp);
                    }
                }
            }
            out.sample(J::obj(vec![("pattern", J::s(text))]));
        });
    }
}
