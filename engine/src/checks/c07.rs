//! C07 — the compiler accepts exactly the XPath 3.1 regex grammar and flag
//! set. Every token string up to a length bound over the token alphabets,
//! every rendered AST of the scopes, and every flag string of length <= 3
//! over a superset alphabet, against the three-valued reference recogniser.

use crate::core::{Case, Check, ChunkOut, Ctx, Plan, Tier};
use crate::gen;
use crate::imp::{self, Out, EK};
use crate::refparse::{self, Dialect, Verdict};
use crate::space::{self, SegKind, Space};
use crate::util::J;

pub struct C07;

// (the non-ASCII letters share their low byte with i, m, s, x, q and ';')
const FLAG_LETTERS: [&str; 18] = ["s", "m", "i", "x", "q", ";", "g", "k", "K", "z", " ", "\u{169}", "\u{16d}", "\u{173}", "\u{178}", "\u{171}", "\u{13b}", "\u{e9}"];

pub fn space_for(tier: Tier) -> Space {
    let mut s = Space::new();
    match tier {
        Tier::Quick => {
            s.tok("T", &gen::T_FULL, 3, 2048).tok("T0", &gen::T_CORE, 4, 2048).tok("TU", &gen::T_UNI, 3, 2048).tok("TQ", &gen::T_QUANT, 5, 2048).tok("TG", &gen::T_GROUP, 6, 2048).tok("TX", &gen::T_XCLS, 4, 2048).tok("TC", &gen::T_CLS, 6, 2048);
            s.ast("K", 4, 512).ast("Q", 3, 512).ast("CL", 3, 512).ast("G", 4, 512).ast("AN", 4, 512);
        }
        Tier::Thorough => {
            s.tok("T", &gen::T_FULL, 4, 4096).tok("T0", &gen::T_CORE, 5, 4096).tok("TU", &gen::T_UNI, 4, 4096).tok("TQ", &gen::T_QUANT, 6, 4096).tok("TG", &gen::T_GROUP, 7, 4096).tok("TX", &gen::T_XCLS, 5, 4096).tok("TC", &gen::T_CLS, 7, 4096);
            s.ast("K", 5, 512).ast("Q", 4, 512).ast("CL", 4, 512).ast("G", 5, 512).ast("AN", 5, 512).ast("CI", 4, 512).ast("U", 4, 512);
        }
    }
    s.list("flagstrings", 1 + 18 + 324 + 5832, 256);
    s.list("whitespace under x", xws_cases().len() as u64, 64);
    s.list("single-character edits", edit_cases().len() as u64, 64);
    s.list("name namespaces", crate::refparse::CATS.len() as u64 + 8, 8);
    s
}

fn flag_string(mut idx: u64) -> String {
    let k = FLAG_LETTERS.len() as u64;
    let mut len = 0;
    let mut block = 1;
    while idx >= block {
        idx -= block;
        block *= k;
        len += 1;
    }
    let d = crate::util::nth_token_string(&FLAG_LETTERS, len, idx);
    gen::tokens_to_string(&FLAG_LETTERS, &d)
}

/// Acceptance under flag x: base patterns (nested class subtractions, groups,
/// quantifiers, escapes) with one whitespace character inserted at every gap;
/// the reference verdict is that of the reference-stripped text.
pub fn xws_cases() -> Vec<String> {
    let bases = [
        "(?:ab)+c", "x(a|(?:b))", "a*?b", "(a)\\1", "a\\$",
        "[a-[b]]", "[a-c-[b]]", "[^a-[b]]", "[a-[b-[c]]]", "[a-[b]]+c", "(?:a)[b-[c]]", "a{1,2}", "(?:a|b)*", "\\[a\\]b", "\\p{Lu}", "a\\1", "(a)\\1",
        "[a b]", "[\\]a]", "a|b", "^a$", "\\d+", "[a-c]{2,}",
    ];
    let mut v = vec![];
    for b in bases {
        v.push(b.to_string());
        let cs: Vec<char> = b.chars().collect();
        for gap in 0..=cs.len() {
            for ws in [' ', '\t', '\n', '\r'] {
                let mut t: String = cs[..gap].iter().collect();
                t.push(ws);
                t.extend(&cs[gap..]);
                v.push(t);
            }
        }
    }
    v
}

/// Single-character edits (delete, duplicate, replace by a metacharacter) of
/// valid patterns that use nesting: class subtraction, groups, counted
/// quantifiers, back-references.
fn edit_cases() -> Vec<String> {
    let bases = [
        "[a-[b]]", "[a-c-[b]]", "[^a-[b]]", "[a-[b-[c]]]", "x[a-[b]]y", "([a-[b]])", "[a-[b]]|c", "(?:[^a-[b]]|c)d", "(a*){2,3}", "(a|){1,2}b", "^{1,2}a",
        "a${2,3}", "(a?){1,4}?b", "(a)\\1{2}", "(?:a(b))\\2", "\\p{Lu}+", "[\\p{L}-[\\p{Lu}]]", "a{2,}?b",
        "\\p{IsBasicLatin}", "\\P{IsGreek}", "[\\p{IsLatin-1Supplement}a]", "(?:a)(b)\\2", "(a)(?:b\\1)", "(?:a|(b))\\1", "[a--[b]]", "[\\t-\\r]", "[!-\\-]",
    ];
    let subs = [']', '[', '-', '(', ')', '{', '}', ',', '?', '\\', 'a', '2', '0'];
    let mut v = vec![];
    for b in bases {
        let cs: Vec<char> = b.chars().collect();
        for k in 0..cs.len() {
            let mut del = cs.clone();
            del.remove(k);
            v.push(del.iter().collect::<String>());
            let mut dup = cs.clone();
            dup.insert(k, cs[k]);
            v.push(dup.iter().collect::<String>());
            for s in subs {
                if cs[k] != s {
                    let mut r = cs.clone();
                    r[k] = s;
                    v.push(r.iter().collect::<String>());
                }
            }
            for ins in ['_', ' ', '-', '('] {
                let mut r = cs.clone();
                r.insert(k, ins);
                v.push(r.iter().collect::<String>());
            }
            if k + 1 < cs.len() {
                let mut sw = cs.clone();
                sw.swap(k, k + 1);
                v.push(sw.iter().collect::<String>());
            }
        }
    }
    v.sort();
    v.dedup();
    v
}

/// Reference verdict on a flag string for the XPath dialect:
/// Some(true) valid, Some(false) invalid, None unclear (engine-specific suffix).
pub fn ref_flags(f: &str) -> Option<bool> {
    let (head, tail) = match f.find(';') {
        Some(ix) => (&f[..ix], Some(&f[ix + 1..])),
        None => (f, None),
    };
    if !head.chars().all(|c| "smixq".contains(c)) {
        return Some(false);
    }
    match tail {
        None => Some(true),
        Some(t) if t.is_empty() => Some(true),
        Some(_) => None,
    }
}

impl Check for C07 {
    fn id(&self) -> &'static str {
        "C07"
    }
    fn plan(&self, ctx: &Ctx) -> Plan {
        let s = space_for(ctx.tier);
        Plan {
            chunks: s.chunks(),
            layer_of: s.layer_fn(),
            description: format!(
                "Regex::xpath acceptance of every token string and every rendered AST (flags \"\" and \"ims\"), and of every flag string of length <= 3 over {:?} with pattern \"a\": {}",
                FLAG_LETTERS,
                s.describe()
            ),
            rule: "exhaustive enumeration; reference verdict Valid => must compile, Invalid => must be Err(Syntax), Unclear => skipped; an item is non-trivial when the reference gives a definite verdict; both verdict classes occur (counted)".into(),
            assumptions: vec![
                "the reference recogniser (engine/src/refparse.rs) transcribes XSD 1.1 part 2 appendix G plus F&O 3.1 5.6.1; disputed spots (mid-group hyphens, [^^, bounds of more than 9 digits, flag text after ';') are Unclear and never judged".into(),
                "block names are those of the repository's Blocks.txt / CompatBlocks.txt".into(),
            ],
        }
    }
    fn run_chunk(&self, ctx: &Ctx, chunk: u64, out: &mut ChunkOut) {
        let sp = space_for(ctx.tier);
        let (seg, lo, hi) = sp.locate(chunk);
        let scope_name = space::seg_scope_name(seg);
        if let SegKind::List { name: "whitespace under x" } = seg.kind {
            let cases = xws_cases();
            for i in lo..hi {
                let text = &cases[i as usize];
                let stripped: String = refparse::strip_x(&text.chars().collect::<Vec<_>>()).iter().collect();
                let v = refparse::parse(&stripped, Dialect::XPath, &ctx.ucd);
                out.inc("states");
                let got = imp::compile(text, "x", false);
                let case = Case::new(&scope_name, text, "x").api("compile");
                if got.is_crash() {
                    // neither accepted nor "rejected with Error::Syntax": a violation of the
                    // acceptance property whenever the reference has a definite verdict
                    match &v {
                        Verdict::Unclear(_) => out.inc("inconclusive_crash"),
                        Verdict::Valid(_) => out.fail("C07", &case, "CrashInsteadOfVerdict", "Ok (grammar-valid)", &got.show(), ""),
                        Verdict::Invalid(why) => out.fail("C07", &case, "CrashInsteadOfVerdict", &format!("Err(Syntax): {}", why), &got.show(), ""),
                    }
                    continue;
                }
                match (&v, &got) {
                    (Verdict::Unclear(_), _) => out.inc("ref_unclear_skipped"),
                    (Verdict::Valid(_), Out::Ok(_)) | (Verdict::Invalid(_), Out::Err(EK::Syntax)) => {
                        out.inc("validated");
                        out.inc("nontrivial");
                    }
                    (Verdict::Valid(_), g) => {
                        out.inc("validated");
                        out.fail("C07", &case, "Rejects", &format!("Ok (stripped pattern {:?} is grammar-valid)", stripped), &g.show(), "flag x");
                    }
                    (Verdict::Invalid(why), g) => {
                        out.inc("validated");
                        out.fail("C07", &case, "Accepts", &format!("Err(Syntax): stripped pattern {:?}: {}", stripped, why), if g.ok().is_some() { "Ok" } else { "an error other than Syntax" }, "flag x");
                    }
                }
                out.sample(J::obj(vec![("pattern", J::s(text)), ("flags", J::s("x")), ("stripped", J::s(&stripped))]));
            }
            return;
        }
        if let SegKind::List { name: "name namespaces" } = seg.kind {
            // category names and block names are separate namespaces, whatever was compiled before
            const BLOCKS: [&str; 8] = ["Greek", "BasicLatin", "Latin-1Supplement", "Cyrillic", "Hebrew", "Arabic", "Thai", "Hiragana"];
            let cats = crate::refparse::CATS;
            for i in lo..hi {
                let (first, second) = if (i as usize) < cats.len() {
                    let c = cats[i as usize];
                    (format!("\\p{{{}}}", c), format!("\\p{{Is{}}}", c))
                } else {
                    let b = BLOCKS[i as usize - cats.len()];
                    (format!("\\p{{Is{}}}", b), format!("\\p{{{}}}", b))
                };
                for (text, want_ok) in [(&first, true), (&second, false), (&first, true), (&second, false)] {
                    out.inc("states");
                    let got = imp::compile(text, "", false);
                    if got.is_crash() {
                        out.inc("inconclusive_crash");
                        continue;
                    }
                    out.inc("validated");
                    out.inc("nontrivial");
                    let case = Case::new(&scope_name, text, "").api("compile");
                    match (want_ok, &got) {
                        (true, Out::Ok(_)) | (false, Out::Err(_)) => {}
                        (true, g) => out.fail("C07", &case, "RejectsValid", "Ok", &g.show(), "known name"),
                        (false, _) => out.fail("C07", &case, "AcceptsInvalid", "Err(Syntax)", "Ok", &format!("a category name is not a block name and vice versa (compiled right after {:?})", first)),
                    }
                }
                out.sample(J::obj(vec![("sequence", J::s(format!("{} then {}", first, second)))]));
            }
            return;
        }
        if let SegKind::List { name: "single-character edits" } = seg.kind {
            let cases = edit_cases();
            for i in lo..hi {
                let text = &cases[i as usize];
                let v = refparse::parse(text, Dialect::XPath, &ctx.ucd);
                out.inc("states");
                let got = imp::compile(text, "", false);
                let case = Case::new(&scope_name, text, "").api("compile");
                if got.is_crash() {
                    // neither accepted nor "rejected with Error::Syntax": a violation of the
                    // acceptance property whenever the reference has a definite verdict
                    match &v {
                        Verdict::Unclear(_) => out.inc("inconclusive_crash"),
                        Verdict::Valid(_) => out.fail("C07", &case, "CrashInsteadOfVerdict", "Ok (grammar-valid)", &got.show(), ""),
                        Verdict::Invalid(why) => out.fail("C07", &case, "CrashInsteadOfVerdict", &format!("Err(Syntax): {}", why), &got.show(), ""),
                    }
                    continue;
                }
                match (&v, &got) {
                    (Verdict::Unclear(_), _) => out.inc("ref_unclear_skipped"),
                    (Verdict::Valid(_), Out::Ok(_)) => {
                        out.inc("validated");
                        out.inc("nontrivial");
                        out.inc("ref_valid");
                    }
                    (Verdict::Invalid(_), Out::Err(EK::Syntax)) => {
                        out.inc("validated");
                        out.inc("nontrivial");
                        out.inc("ref_invalid");
                    }
                    (Verdict::Valid(_), g) => {
                        out.inc("validated");
                        out.fail("C07", &case, "Rejects", "Ok (grammar-valid)", &g.show(), "");
                    }
                    (Verdict::Invalid(why), g) => {
                        out.inc("validated");
                        out.fail("C07", &case, if g.ok().is_some() { "Accepts" } else { "WrongErrorKind" }, &format!("Err(Syntax): {}", why), if g.ok().is_some() { "Ok" } else { "another error" }, "");
                    }
                }
                out.sample(J::obj(vec![("edited_pattern", J::s(text))]));
            }
            return;
        }
        if let SegKind::List { .. } = seg.kind {
            for i in lo..hi {
                let flags = flag_string(i);
                let want = ref_flags(&flags);
                out.inc("states");
                let got = imp::compile("a", &flags, false);
                let case = Case::new(&scope_name, "a", &flags).api("compile");
                match (want, &got) {
                    (None, _) => out.inc("ref_unclear_skipped"),
                    (_, g) if g.is_crash() => out.inc("inconclusive_crash"),
                    (Some(true), Out::Ok(_)) => {
                        out.inc("validated");
                        out.inc("nontrivial");
                        out.inc("ref_valid");
                    }
                    (Some(false), Out::Err(EK::InvalidFlags)) => {
                        out.inc("validated");
                        out.inc("nontrivial");
                        out.inc("ref_invalid");
                    }
                    (Some(true), g) => {
                        out.inc("validated");
                        out.fail("C07", &case, "RejectsFlags", "Ok", &g.show(), "")
                    }
                    (Some(false), g) => {
                        out.inc("validated");
                        out.fail("C07", &case, "AcceptsFlags", "Err(InvalidFlags)", &g.show(), "")
                    }
                }
                out.sample(J::obj(vec![("flag_string", J::s(&flags))]));
            }
            return;
        }
        let is_ast = matches!(seg.kind, SegKind::Ast { .. });
        space::for_each_text(seg, lo, hi, &mut |_i, text| {
            let v = refparse::parse(text, Dialect::XPath, &ctx.ucd);
            let flag_list: &[&str] = if is_ast { &["", "ims"] } else { &[""] };
            for flags in flag_list {
                out.inc("states");
                out.pin(&|| format!("compile {:?} {:?}", text, flags));
                let got = imp::compile(text, flags, false);
                let case = Case::new(&scope_name, text, flags).api("compile");
                if got.is_crash() {
                    // neither accepted nor "rejected with Error::Syntax": a violation of the
                    // acceptance property whenever the reference has a definite verdict
                    match &v {
                        Verdict::Unclear(_) => out.inc("inconclusive_crash"),
                        Verdict::Valid(_) => out.fail("C07", &case, "CrashInsteadOfVerdict", "Ok (grammar-valid)", &got.show(), ""),
                        Verdict::Invalid(why) => out.fail("C07", &case, "CrashInsteadOfVerdict", &format!("Err(Syntax): {}", why), &got.show(), ""),
                    }
                    continue;
                }
                match (&v, &got) {
                    (Verdict::Unclear(_), _) => out.inc("ref_unclear_skipped"),
                    (Verdict::Valid(_), Out::Ok(_)) => {
                        out.inc("validated");
                        out.inc("nontrivial");
                        out.inc("ref_valid");
                    }
                    (Verdict::Invalid(_), Out::Err(EK::Syntax)) => {
                        out.inc("validated");
                        out.inc("nontrivial");
                        out.inc("ref_invalid");
                    }
                    (Verdict::Valid(_), g) => {
                        out.inc("validated");
                        out.fail("C07", &case, "Rejects", "Ok (grammar-valid)", &g.show(), "");
                    }
                    (Verdict::Invalid(why), Out::Ok(_)) => {
                        out.inc("validated");
                        out.fail("C07", &case, "Accepts", &format!("Err(Syntax): {}", why), "Ok", "");
                    }
                    (Verdict::Invalid(why), g) => {
                        out.inc("validated");
                        out.fail("C07", &case, "WrongErrorKind", &format!("Err(Syntax): {}", why), &g.show(), "");
                    }
                }
            }
            out.sample(J::obj(vec![("pattern", J::s(text)), ("reference_verdict", J::s(format!("{:?}", matches!(v, Verdict::Valid(_)))))]));
        });
    }
}
