//! C12 — anchors and dot follow the m and s flags exactly. Exhaustive over
//! the anchor scope x {"", m, s, ms} x ALL inputs up to a length bound over
//! {a, LF, CR}; oracle: the reference language with the position tests
//! worded exactly as the property words them, plus the weak span clause.

use super::common::{self, Compiled};
use crate::core::{Case, Check, ChunkOut, Ctx, Plan, Tier};
use crate::imp::{self, Out};
use crate::sem::{Fl, Sem};
use crate::space::{self, Space};
use crate::util::{all_strings, J};

pub struct C12;

const FLAGS: [&str; 4] = ["", "m", "s", "ms"];

/// Token strings: optional and repeated anchors (which match the empty string everywhere
/// and so must change nothing), an anchor inside a capturing group that is not the first
/// term, newline-consuming terms, beside a repeat that must give characters back.
const T_ANCH: [&str; 10] = ["^?", "$*", "^", "$", "a*", "a", "\\n", "(^a)", "|", "."];

fn space_for(tier: Tier) -> (Space, usize) {
    let mut s = Space::new();
    match tier {
        Tier::Quick => {
            s.ast("AN", 5, 64).ast("ANU", 3, 64).ast("ANQ", 4, 64).ast("ANI", 3, 64).ast("ALTM", 4, 64);
            s.tok("TA", &T_ANCH, 4, 64);
            s.list("flag strings", 1, 1);
            (s, 4)
        }
        Tier::Thorough => {
            s.ast("AN", 5, 64).ast("ANU", 4, 64).ast("ANQ", 4, 64).ast("ANI", 4, 64).ast("ALTM", 4, 64);
            s.tok("TA", &T_ANCH, 6, 256);
            s.list("flag strings", 1, 1);
            (s, 5)
        }
    }
}

impl Check for C12 {
    fn id(&self) -> &'static str {
        "C12"
    }
    fn plan(&self, ctx: &Ctx) -> Plan {
        let (s, maxlen) = space_for(ctx.tier);
        Plan {
            chunks: s.chunks(),
            layer_of: s.layer_fn(),
            description: format!(
                "is_match and analyze spans of every pattern AST over leaves a . ^ $ \\n [^a] (anchors in any position, quantified, in groups and alternations) x flags {:?} x all inputs of length <= {} over {{a, LF, CR}}: {}",
                FLAGS,
                maxlen,
                s.describe()
            ),
            rule: "exhaustive; a program is non-trivial when it contains ^, $ or . and the reference accepts some and rejects some input".into(),
            assumptions: vec![
                "^ holds at offset 0 and, with m, immediately after every U+000A that is not the last character; $ holds at the end and, with m, immediately before every U+000A; . excludes U+000A and U+000D unless s".into(),
                "spans are judged by the weak clause (leftmost start, span in the match relation) for non-nullable patterns".into(),
            ],
        }
    }
    fn run_chunk(&self, ctx: &Ctx, chunk: u64, out: &mut ChunkOut) {
        let (sp, maxlen) = space_for(ctx.tier);
        let (seg, lo, hi) = sp.locate(chunk);
        let scope_name = space::seg_scope_name(seg);
        if let space::SegKind::List { .. } = seg.kind {
            let n = common::flag_effect(out, "C12", 'm') + common::flag_effect(out, "C12", 's');
            // the dot against every scalar value: without s exactly U+000A and U+000D are left
            // behind, with s nothing, in both dialects and inside a group / under a quantifier
            let hay: String = (0u32..0x110000).filter_map(char::from_u32).collect();
            for (pat, flags, xsd, want) in [
                (".", "", false, "\n\r"),
                (".", "s", false, ""),
                (".", "m", false, "\n\r"),
                (".", "", true, "\n\r"),
                (".", "s", true, ""),
                ("(.)", "", false, "\n\r"),
                (".+", "", false, "\n\r"),
                (".+", "s", false, ""),
                ("(?:.|a)", "i", false, "\n\r"),
            ] {
                out.add("states", 1_112_064);
                if let Compiled::Ok(re) = common::compile(pat, flags, xsd) {
                    if let Out::Ok(left) = imp::with_fuel(400_000_000, || imp::replace_all(&re, &hay, "")) {
                        out.add("validated", 1_112_064);
                        if left != want {
                            let first = left.chars().find(|c| !want.contains(*c)).map(|c| c.to_string()).unwrap_or_default();
                            out.fail("C12", &Case::new("DOTALL", pat, flags).xsd(xsd).input(&first).api("replace_all"), "DotSet", &format!("{:?} left behind", want), &format!("{:?} left behind", left.chars().take(8).collect::<String>()), "the dot over all scalar values");
                        }
                    } else {
                        out.inc("inconclusive_crash");
                    }
                }
            }
            out.sample(J::obj(vec![("flag_strings_probed", J::i(n as usize))]));
            return;
        }
        let sigma = match &seg.kind {
            space::SegKind::Ast { scope, .. } => crate::gen::scope(scope).sigma,
            _ => vec!['a', '\n'],
        };
        let inputs = all_strings(&sigma, maxlen);
        let inputs_c: Vec<Vec<char>> = inputs.iter().map(|s| s.chars().collect()).collect();
        space::for_each_text(seg, lo, hi, &mut |_i, text| {
            let parsed = match common::ref_valid(text, ctx) {
                Some(p) => p,
                None => return,
            };
            if !(text.contains('^') || text.contains('$') || text.contains('.')) {
                return;
            }
            out.shape = parsed.ast.shape();
            let dialects: &[bool] = if text.contains('^') || text.contains('$') || text.contains("(?:") { &[false] } else { &[false, true] };
            // the case layer runs under flag i together with m and s
            let menu: &[&str] = if scope_name.starts_with("ANI") { &["i", "mi", "si", "msi"] } else { &FLAGS };
            for (flags, xsd) in menu.iter().flat_map(|f| dialects.iter().map(move |d| (*f, *d))) {
                let fl = Fl::parse(flags);
                let re = match common::compile(text, flags, xsd) {
                    Compiled::Ok(re) => re,
                    Compiled::Rejected => {
                        out.inc("rejected_valid");
                        continue;
                    }
                    Compiled::Crash => {
                        out.inc("inconclusive_crash");
                        continue;
                    }
                };
                let nullable = common::ref_nullable(&parsed, fl, ctx) != Some(false);
                let (mut t, mut f) = (false, false);
                for (k, inp) in inputs.iter().enumerate() {
                    let chars = &inputs_c[k];
                    let sem = Sem { s: chars, f: fl, ucd: &ctx.ucd };
                    let want = sem.lang_is_match(&parsed.ast);
                    if want {
                        t = true
                    } else {
                        f = true
                    }
                    out.pin(&|| format!("{:?} {:?} {:?}", text, flags, inp));
                    out.inc("states");
                    match imp::is_match(&re, inp) {
                        Out::Ok(g) => {
                            out.inc("validated");
                            if g != want {
                                out.fail(
                                    "C12",
                                    &Case::new(&scope_name, text, flags).xsd(xsd).input(inp).api("is_match"),
                                    if g { "WrongTrue" } else { "WrongFalse" },
                                    &want.to_string(),
                                    &g.to_string(),
                                    "",
                                );
                                continue;
                            }
                        }
                        _ => {
                            out.inc("inconclusive_crash");
                            continue;
                        }
                    }
                    if nullable || inp.is_empty() {
                        continue;
                    }
                    // weak span clause on analyze
                    if let Out::Ok(an) = imp::analyze(&re, inp) {
                        let got = imp::spans_from_analyze(&an);
                        let mut pos = 0usize;
                        let mut all_ok = true;
                        let case = Case::new(&scope_name, text, flags).xsd(xsd).input(inp).api("analyze");
                        for (st, en) in &got {
                            let ok = *st >= pos
                                && matches!(sem.lang_leftmost(&parsed.ast, pos), Some((l, _)) if l == *st)
                                && sem.ends(&parsed.ast, *st) & (1 << *en) != 0;
                            if !ok {
                                out.fail("C12", &case, "WrongSpan", "leftmost start, span in the match relation", &format!("{:?}", got), "");
                                all_ok = false;
                                break;
                            }
                            pos = if en > st { *en } else { *en + 1 };
                        }
                        // ... and the scan is complete: nothing in the language starts at or
                        // after the end of the last reported match
                        if all_ok && pos <= chars.len() && got.iter().all(|(st, en)| en > st) {
                            if let Some((l, _)) = sem.lang_leftmost(&parsed.ast, pos) {
                                out.fail("C12", &case, "MissedMatch", &format!("a further match starting at {}", l), &format!("{:?}", got), "");
                            }
                        }
                    }
                }
                if t && f {
                    out.inc("nontrivial");
                }
            }
            out.sample(J::obj(vec![("pattern", J::s(text)), ("flags", J::s(format!("{:?}", FLAGS)))]));
        });
    }
}
