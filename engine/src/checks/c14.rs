//! C14 — flag x ignores pattern whitespace outside character classes.
//! For every pattern text (valid AND invalid: "rejected iff") of the scopes
//! and every token string of the core alphabet, every subset of up to k
//! character gaps (including gaps inside multi-character tokens and inside
//! classes) receives an inserted character; under x the result must behave in
//! every respect like the reference-stripped pattern without x.

use crate::core::{Case, Check, ChunkOut, Ctx, Plan, Tier};
use crate::gen;
use crate::imp::{self, Out};
use crate::refparse::strip_x;
use crate::space::{self, Space};
use crate::util::J;

pub struct C14;

/// must vanish outside classes / must never vanish
const WS: [char; 4] = ['\t', '\n', '\r', ' '];
const NOT_WS: [char; 7] = ['\u{b}', '\u{c}', '\u{a0}', '\u{2003}', '\u{120}', '\u{2009}', '#'];

fn space_for(tier: Tier) -> (Space, usize) {
    let mut s = Space::new();
    match tier {
        Tier::Quick => {
            s.ast("K", 3, 16).ast("CL", 3, 16).tok("T0", &gen::T_CORE, 2, 16).ast("NESTX", 3, 4);
            // deeper nesting with single insertions only
            s.ast_range("NESTX", 4, 5, 8, 1);
            s.tok("TX", &gen::T_XCLS, 4, 64).tok("TXE", &gen::T_XESC, 3, 16);
            s.list("flag strings", 1, 1);
            (s, 2)
        }
        Tier::Thorough => {
            s.ast("K", 4, 16).ast("CL", 3, 16).ast("G", 4, 16).tok("T0", &gen::T_CORE, 3, 16).tok("T", &gen::T_FULL, 2, 16).ast("NESTX", 4, 4);
            s.ast_range("NESTX", 5, 6, 8, 1);
            s.tok("TX", &gen::T_XCLS, 5, 64).tok("TXE", &gen::T_XESC, 4, 16);
            s.list("flag strings", 1, 1);
            (s, 2)
        }
    }
}

const INPUTS: [&str; 20] = ["", "a", "b", "ab", "aab", " ", "a b", "a\tb", "\n", "1", "a\u{c}b", "\u{a0}", "c", "ca", "cab", "ccb", "[a]b", "\\a", "a\\ab", "\\ b"];

fn observe(text: &str, flags: &str, extra_input: &str, xsd: bool) -> Vec<String> {
    let mut v = vec![];
    match imp::compile(text, flags, xsd) {
        Out::Ok(re) => {
            v.push("compile=Ok".to_string());
            for inp in INPUTS.iter().copied().chain(std::iter::once(extra_input)) {
                let s = imp::surface(&re, inp, "<$0|$1|$2>");
                v.push(s.show());
            }
        }
        Out::Err(e) => v.push(format!("compile=Err({:?})", matches!(e, crate::imp::EK::Syntax))),
        o => v.push(format!("compile=CRASH {:?}", o.map(|_| ()))),
    }
    v
}

impl Check for C14 {
    fn id(&self) -> &'static str {
        "C14"
    }
    fn plan(&self, ctx: &Ctx) -> Plan {
        let (s, k) = space_for(ctx.tier);
        Plan {
            chunks: s.chunks(),
            layer_of: s.layer_fn(),
            description: format!(
                "every pattern text (valid or not) x every subset of <= {} character gaps x inserted character in TAB LF CR SP (must vanish outside classes, must stay inside) and U+000B U+000C U+00A0 U+2003 (must never vanish), compared on compile outcome and all API observations over {} inputs: {}",
                k,
                INPUTS.len() + 1,
                s.describe()
            ),
            rule: "exhaustive; one state = one (pattern, gap set, inserted character) comparison; non-trivial when the inserted character lands outside a class (stripping applies) for a pattern that compiles".into(),
            assumptions: vec![
                "the reference stripper (refparse::strip_x) deletes exactly U+0009 U+000A U+000D U+0020 outside [...] where class extent is determined by the reference's own bracket scan, not by regexml".into(),
                "cases whose bracket structure is unbalanced (class extent ill-defined) are compared on acceptance only when both spellings are rejected; otherwise skipped".into(),
            ],
        }
    }
    fn run_chunk(&self, ctx: &Ctx, chunk: u64, out: &mut ChunkOut) {
        let (sp, k) = space_for(ctx.tier);
        let (seg, lo, hi) = sp.locate(chunk);
        let scope_name = space::seg_scope_name(seg);
        if let space::SegKind::List { .. } = seg.kind {
            let n = super::common::flag_effect(out, "C14", 'x');
            out.sample(J::obj(vec![("flag_strings_probed", J::i(n as usize))]));
            return;
        }
        let k = if seg.param > 0 { seg.param } else { k };
        // the long class-syntax strings with single insertions only in the quick tier
        let k = if ctx.tier == Tier::Quick && scope_name.starts_with("TX") && !scope_name.starts_with("TXE") { 1 } else { k };
        space::for_each_text(seg, lo, hi, &mut |_i, text| {
            let chars: Vec<char> = text.chars().collect();
            let n = chars.len();
            if n > 16 {
                return;
            }
            // gap sets: positions 0..=n, subsets of size 1..=k
            let mut gapsets: Vec<Vec<usize>> = vec![];
            for a in 0..=n {
                gapsets.push(vec![a]);
                if k >= 2 {
                    for b in a..=n {
                        gapsets.push(vec![a, b]);
                    }
                }
            }
            // balanced brackets? (class extent well-defined)
            let balanced = {
                let mut depth = 0i32;
                let mut ok = true;
                let mut esc = false;
                for c in &chars {
                    if esc {
                        esc = false;
                        continue;
                    }
                    match c {
                        '\\' => esc = true,
                        '[' => depth += 1,
                        ']' => {
                            depth -= 1;
                            if depth < 0 {
                                ok = false;
                            }
                        }
                        _ => {}
                    }
                }
                ok && depth == 0
            };
            let mut base_cache: std::collections::HashMap<(String, bool), Vec<String>> = std::collections::HashMap::new();
            for gs in &gapsets {
                for ins in WS.iter().chain(NOT_WS.iter()) {
                    let mut with: Vec<char> = Vec::with_capacity(n + gs.len());
                    for i in 0..=n {
                        for g in gs {
                            if *g == i {
                                with.push(*ins);
                            }
                        }
                        if i < n {
                            with.push(chars[i]);
                        }
                    }
                    let with_s: String = with.iter().collect();
                    let stripped: String = strip_x(&with).iter().collect();
                    out.inc("states");
                    out.pin(&|| format!("{:?} flag x vs {:?}", with_s, stripped));
                  // both dialects know flag x; the XSD dialect on single insertions
                  for xsd in [false, true] {
                    if xsd && gs.len() > 1 {
                        continue;
                    }
                    // the same text without the flag first: nothing of it may carry over
                    let _ = imp::compile(&with_s, "", xsd);
                    let a = observe(&with_s, "x", &stripped, xsd);
                    let b = base_cache.entry((stripped.clone(), xsd)).or_insert_with(|| observe(&stripped, "", &stripped, xsd)).clone();
                    let crashed = |v: &Vec<String>| v.iter().any(|x| x.contains("CRASH") || x.contains("PANIC") || x.contains("NONTERMINATION"));
                    if crashed(&a) && crashed(&b) {
                        out.inc("inconclusive_crash");
                        continue;
                    }
                    if crashed(&a) != crashed(&b) {
                        out.inc("validated");
                        out.fail("C14", &Case::new(&scope_name, &with_s, "x").xsd(xsd).api("all"), "OnlyOneSideCrashes", &format!("like {:?} without x: {}", stripped, b.join(" ;; ")), &a.join(" ;; "), "a panic or an exhausted step budget on one side only is a difference");
                        continue;
                    }
                    if !balanced && !(a[0].starts_with("compile=Err") && b[0].starts_with("compile=Err")) {
                        out.inc("unbalanced_brackets_skipped");
                        continue;
                    }
                    out.inc("validated");
                    if stripped != with_s && a[0] == "compile=Ok" {
                        out.inc("nontrivial");
                    }
                    if a != b {
                        let ix = a.iter().zip(b.iter()).position(|(x, y)| x != y).unwrap_or(0);
                        let input = if ix == 0 { "" } else { INPUTS.get(ix - 1).copied().unwrap_or(&stripped) };
                        out.fail(
                            "C14",
                            &Case::new(&scope_name, &with_s, "x").xsd(xsd).input(input).repl("<$0|$1|$2>").api(if ix == 0 { "compile" } else { "all" }),
                            "XDiffersFromStripped",
                            &format!("like {:?} without x: {}", stripped, b.get(ix).cloned().unwrap_or_default()),
                            &a.get(ix).cloned().unwrap_or_default(),
                            &format!("inserted U+{:04X} at gaps {:?} of {:?}", *ins as u32, gs, text),
                        );
                    }
                  }
                }
            }
            out.sample(J::obj(vec![("pattern", J::s(text)), ("gap_sets", J::i(gapsets.len())), ("inserted", J::s("TAB LF CR SP U+000B U+000C U+00A0 U+2003 U+0120 U+2009 #"))]));
        });
    }
}
