//! C13 — flag q turns pattern and replacement into plain literal strings.
//! Exhaustive over all literal strings up to a length bound over the full
//! metacharacter alphabet x flag sets containing q x inputs built from the
//! literal x replacement strings; oracle: plain substring search / replace /
//! split of the standard library (ASCII-case-folded under i).

use crate::core::{Case, Check, ChunkOut, Ctx, Plan, Tier};
use crate::imp::{self, Out, EK};
use crate::space::{Space};
use crate::util::J;
use regexml::{AnalyzeEntry, MatchEntry};

pub struct C13;

const ALPHA: [&str; 19] = ["a", "A", "(", ")", "[", "]", "{", "}", "\\", "?", "*", "+", "|", ".", "^", "$", "-", "1", " "];
const FLAGSETS: [&str; 7] = ["q", "qi", "qm", "qs", "qx", "qimsx", "iq"];
const REPLS: [&str; 6] = ["$1", "\\", "$", "\\$x", "a", ""];

fn count(maxlen: u32) -> u64 {
    (0..=maxlen).map(|l| (ALPHA.len() as u64).pow(l)).sum()
}

fn literal(mut idx: u64) -> String {
    let k = ALPHA.len() as u64;
    let mut len = 0;
    let mut block = 1;
    while idx >= block {
        idx -= block;
        block *= k;
        len += 1;
    }
    let d = crate::util::nth_token_string(&ALPHA, len, idx);
    crate::gen::tokens_to_string(&ALPHA, &d)
}

fn space_for(tier: Tier) -> Space {
    let mut s = Space::new();
    match tier {
        Tier::Quick => s.list("literals<=3", count(3), 64),
        Tier::Thorough => s.list("literals<=4", count(4), 64),
    };
    s
}

fn fold(s: &str, ci: bool) -> String {
    if ci {
        s.to_ascii_lowercase()
    } else {
        s.to_string()
    }
}

/// Non-overlapping leftmost occurrences of `needle` in `hay` (char offsets irrelevant: ASCII alphabet).
fn occurrences(hay: &str, needle: &str, ci: bool) -> Vec<(usize, usize)> {
    let h = fold(hay, ci);
    let n = fold(needle, ci);
    let mut out = vec![];
    let mut pos = 0;
    while let Some(ix) = h[pos..].find(&n) {
        out.push((pos + ix, pos + ix + n.len()));
        pos = pos + ix + n.len();
    }
    out
}

impl Check for C13 {
    fn id(&self) -> &'static str {
        "C13"
    }
    fn plan(&self, ctx: &Ctx) -> Plan {
        let s = space_for(ctx.tier);
        Plan {
            chunks: s.chunks(),
            layer_of: s.layer_fn(),
            description: format!(
                "every literal string over {:?} ({}) x flag sets {:?} x inputs derived from the literal (itself, prefixed, suffixed, doubled, case-swapped, one character removed, all strings of length <= 1 over the alphabet) x replacement strings {:?}, all four matching APIs",
                ALPHA,
                s.describe(),
                FLAGSETS,
                REPLS
            ),
            rule: "exhaustive; a literal is non-trivial when it contains a regex metacharacter".into(),
            assumptions: vec![
                "oracle: str::find / replace / split of the Rust standard library on the ASCII alphabet; case folding under i is ASCII lower-casing (alphabet has only ASCII letters)".into(),
                "the empty literal must be reported as matching the empty string by replace_all / analyze / tokenize".into(),
            ],
        }
    }
    fn run_chunk(&self, ctx: &Ctx, chunk: u64, out: &mut ChunkOut) {
        let sp = space_for(ctx.tier);
        let (_seg, lo, hi) = sp.locate(chunk);
        for idx in lo..hi {
            let lit = literal(idx);
            let nontrivial = lit.chars().any(|c| "()[]{}\\?*+|.^$-".contains(c));
            if nontrivial {
                out.inc("nontrivial");
            }
            let mut inputs: Vec<String> = vec![String::new(), lit.clone(), format!("x{}", lit), format!("{}x", lit), format!("{}{}", lit, lit), format!("{}-{}", lit, lit)];
            let swapped: String = lit.chars().map(|c| if c.is_ascii_lowercase() { c.to_ascii_uppercase() } else { c.to_ascii_lowercase() }).collect();
            inputs.push(swapped.clone());
            inputs.push(format!("1{}1", swapped));
            if !lit.is_empty() {
                let cs: Vec<char> = lit.chars().collect();
                inputs.push(cs[1..].iter().collect());
                inputs.push(cs[..cs.len() - 1].iter().collect());
            }
            for a in ALPHA {
                inputs.push(a.to_string());
            }
            inputs.sort();
            inputs.dedup();
            for flags in FLAGSETS {
                let ci = flags.contains('i');
                let base = Case::new("LIT", &lit, flags);
                out.pin(&|| format!("literal {:?} flags {:?}", lit, flags));
                let re = match imp::compile(&lit, flags, false) {
                    Out::Ok(re) => re,
                    o => {
                        out.inc("states");
                        out.inc("validated");
                        if o.is_crash() {
                            out.inc("inconclusive_crash");
                        } else {
                            out.fail("C13", &base.clone().api("compile"), "LiteralRejected", "Ok (every string is a valid literal pattern)", &format!("{:?}", o.map(|_| ())), "");
                        }
                        continue;
                    }
                };
                for inp in &inputs {
                    let occ = if lit.is_empty() { vec![] } else { occurrences(inp, &lit, ci) };
                    let case = base.clone().input(inp);
                    out.inc("states");
                    // is_match
                    let want = lit.is_empty() || !occ.is_empty();
                    match imp::is_match(&re, inp) {
                        Out::Ok(g) => {
                            out.inc("validated");
                            if g != want {
                                out.fail("C13", &case.clone().api("is_match"), if g { "WrongTrue" } else { "WrongFalse" }, &want.to_string(), &g.to_string(), "substring search");
                            }
                        }
                        _ => out.inc("inconclusive_crash"),
                    }
                    if lit.is_empty() {
                        // empty literal: MatchesEmptyString from the scan APIs
                        for (api, is_err) in [
                            ("replace_all", matches!(imp::replace_all(&re, inp, "a"), Out::Err(EK::MatchesEmptyString))),
                            ("analyze", matches!(imp::analyze(&re, inp), Out::Err(EK::MatchesEmptyString))),
                        ] {
                            out.inc("validated");
                            if !is_err {
                                out.fail("C13", &case.clone().api(api), "EmptyLiteralNotRejected", "Err(MatchesEmptyString)", "something else", "");
                            }
                        }
                        continue;
                    }
                    // expected pieces
                    let mut pieces = vec![];
                    let mut pos = 0;
                    for (a, b) in &occ {
                        pieces.push(inp[pos..*a].to_string());
                        pos = *b;
                    }
                    pieces.push(inp[pos..].to_string());
                    // tokenize
                    let want_tokens: Vec<String> = if inp.is_empty() { vec![] } else { pieces.clone() };
                    match imp::tokenize(&re, inp) {
                        Out::Ok(t) => {
                            out.inc("validated");
                            if t != want_tokens {
                                out.fail("C13", &case.clone().api("tokenize"), "WrongTokens", &format!("{:?}", want_tokens), &format!("{:?}", t), "split on the literal");
                            }
                        }
                        o if o.is_crash() => out.inc("inconclusive_crash"),
                        o => out.fail("C13", &case.clone().api("tokenize"), "LiteralApiFails", "Ok", &o.show(), ""),
                    }
                    // analyze: same partition, single-String matches
                    match imp::analyze(&re, inp) {
                        Out::Ok(an) => {
                            out.inc("validated");
                            let mut want: Vec<AnalyzeEntry> = vec![];
                            let mut pos = 0;
                            for (a, b) in &occ {
                                if *a > pos {
                                    want.push(AnalyzeEntry::NonMatch(inp[pos..*a].to_string()));
                                }
                                want.push(AnalyzeEntry::Match(vec![MatchEntry::String(inp[*a..*b].to_string())]));
                                pos = *b;
                            }
                            if pos < inp.len() {
                                want.push(AnalyzeEntry::NonMatch(inp[pos..].to_string()));
                            }
                            if an != want {
                                out.fail("C13", &case.clone().api("analyze"), "WrongAnalyze", &format!("{:?}", want), &format!("{:?}", an), "no groups, single String matches");
                            }
                        }
                        o if o.is_crash() => out.inc("inconclusive_crash"),
                        o => out.fail("C13", &case.clone().api("analyze"), "LiteralApiFails", "Ok", &o.show(), ""),
                    }
                    // replace_all: replacement verbatim
                    for r in REPLS {
                        let want = pieces.join(r);
                        match imp::replace_all(&re, inp, r) {
                            Out::Ok(g) => {
                                out.inc("validated");
                                if g != want {
                                    out.fail("C13", &case.clone().repl(r).api("replace_all"), "WrongReplace", &want, &g, "replacement used verbatim");
                                }
                            }
                            o if o.is_crash() => out.inc("inconclusive_crash"),
                            o => {
                                out.inc("validated");
                                out.fail("C13", &case.clone().repl(r).api("replace_all"), "LiteralApiFails", &format!("Ok({:?})", want), &o.show(), "$ and \\ are ordinary under q");
                            }
                        }
                    }
                }
            }
            out.sample(J::obj(vec![("literal", J::s(&lit)), ("flags", J::s(format!("{:?}", FLAGSETS)))]));
        }
    }
}
