//! C13 — flag q turns pattern and replacement into plain literal strings.
//! Exhaustive over all literal strings up to a length bound over the full
//! metacharacter alphabet x flag sets containing q x inputs built from the
//! literal x replacement strings; oracle: plain substring search / replace /
//! split of the standard library (ASCII-case-folded under i).

use crate::core::{Case, Check, ChunkOut, Ctx, Plan, Tier};
use crate::imp::{self, Out, EK};
use crate::space::{Space};
use crate::util::J;
use regexml::{AnalyzeEntry, MatchEntry};

pub struct C13;

const ALPHA: [&str; 19] = ["a", "A", "(", ")", "[", "]", "{", "}", "\\", "?", "*", "+", "|", ".", "^", "$", "-", "1", " "];
const FLAGSETS: [&str; 7] = ["q", "qi", "qm", "qs", "qx", "qimsx", "iq"];
const REPLS: [&str; 6] = ["$1", "\\", "$", "\\$x", "a", ""];

fn count(maxlen: u32) -> u64 {
    (0..=maxlen).map(|l| (ALPHA.len() as u64).pow(l)).sum()
}

fn literal(mut idx: u64) -> String {
    let k = ALPHA.len() as u64;
    let mut len = 0;
    let mut block = 1;
    while idx >= block {
        idx -= block;
        block *= k;
        len += 1;
    }
    let d = crate::util::nth_token_string(&ALPHA, len, idx);
    crate::gen::tokens_to_string(&ALPHA, &d)
}

/// Non-ASCII literals: characters whose case relations are not ASCII-like (final
/// sigma, long s, dotted capital I, sharp s), an astral character, and a dot.
const NA: [&str; 16] = ["\u{3a3}", "\u{3c3}", "\u{3c2}", "\u{17f}", "S", "s", "\u{e9}", "\u{c9}", "\u{130}", "i", "\u{df}", "\u{1F600}", "\u{39f}", ".", "\u{1c5}", "\u{1c6}"];

fn na_count(maxlen: u32) -> u64 {
    (1..=maxlen).map(|l| (NA.len() as u64).pow(l)).sum()
}

fn na_literal(mut idx: u64) -> String {
    let k = NA.len() as u64;
    let mut len = 1;
    let mut block = k;
    while idx >= block {
        idx -= block;
        block *= k;
        len += 1;
    }
    let d = crate::util::nth_token_string(&NA, len, idx);
    crate::gen::tokens_to_string(&NA, &d)
}

fn space_for(tier: Tier) -> Space {
    let mut s = Space::new();
    match tier {
        Tier::Quick => s.list("literals<=3", count(3), 64).list("non-ASCII literals<=2", na_count(2), 16).list("flag strings", 1, 1).list("long literals", 24, 4).list("bracket literals", 3 + 9 + 27 + 81 + 243 + 729, 64),
        Tier::Thorough => s.list("literals<=4", count(4), 64).list("non-ASCII literals<=3", na_count(3), 16).list("flag strings", 1, 1).list("long literals", 24, 4).list("bracket literals", 3 + 9 + 27 + 81 + 243 + 729, 64),
    };
    s
}

/// Three-valued character relation under flag i: Some(true) when the two are equal
/// or simple upper/lower-case counterparts of each other (must match), Some(false)
/// when no simple mapping or folding relates them (must not), None otherwise.
fn rel_ci(cm: &icu_casemap::CaseMapper, a: char, b: char) -> Option<bool> {
    if a == b || cm.simple_uppercase(a) == b || cm.simple_lowercase(a) == b || cm.simple_uppercase(b) == a || cm.simple_lowercase(b) == a {
        return Some(true);
    }
    let forms = |c: char| [c, cm.simple_uppercase(c), cm.simple_lowercase(c), cm.simple_fold(c), cm.simple_titlecase(c)];
    let (fa, fb) = (forms(a), forms(b));
    if fa.iter().any(|x| fb.contains(x)) {
        None
    } else {
        Some(false)
    }
}

impl C13 {
    fn non_ascii(&self, out: &mut ChunkOut, lo: u64, hi: u64) {
        let cm = icu_casemap::CaseMapper::new();
        for idx in lo..hi {
            let lit = na_literal(idx);
            let lc: Vec<char> = lit.chars().collect();
            let mut inputs: Vec<String> = vec![
                lit.clone(),
                format!("x{}", lit),
                format!("{}x", lit),
                format!("{} {}", lit, lit),
                format!("\u{39f}\u{394}\u{39f}{}", lit),
                format!("\u{39f}\u{394}\u{39f}{} x", lit),
                format!("{}\u{39f}", lit),
                format!("{}", lit.to_uppercase()),
                format!("{}", lit.to_lowercase()),
                String::new(),
            ];
            for a in NA {
                inputs.push(a.to_string());
                inputs.push(format!("{}{}", a, a));
            }
            inputs.sort();
            inputs.dedup();
            for flags in ["q", "qi", "iq", "qims"] {
                let ci = flags.contains('i');
                let base = Case::new("NALIT", &lit, flags);
                let re = match imp::compile(&lit, flags, false) {
                    Out::Ok(re) => re,
                    o => {
                        if !o.is_crash() {
                            out.fail("C13", &base.clone().api("compile"), "LiteralRejected", "Ok (every string is a valid literal pattern)", &format!("{:?}", o.map(|_| ())), "");
                        }
                        continue;
                    }
                };
                out.inc("nontrivial");
                for inp in &inputs {
                    let ic: Vec<char> = inp.chars().collect();
                    out.inc("states");
                    // does some alignment definitely match / do all alignments definitely fail?
                    let mut definite_yes = false;
                    let mut all_no = true;
                    if ic.len() >= lc.len() {
                        for st in 0..=(ic.len() - lc.len()) {
                            let rels: Vec<Option<bool>> = (0..lc.len()).map(|k| if ci { rel_ci(&cm, lc[k], ic[st + k]) } else { Some(lc[k] == ic[st + k]) }).collect();
                            if rels.iter().all(|r| *r == Some(true)) {
                                definite_yes = true;
                            }
                            if !rels.iter().any(|r| *r == Some(false)) {
                                all_no = false;
                            }
                        }
                    }
                    let case = base.clone().input(inp);
                    let m = imp::is_match(&re, inp);
                    let an = imp::analyze(&re, inp);
                    let tk = imp::tokenize(&re, inp);
                    let rp = imp::replace_all(&re, inp, "\u{1}");
                    let (m, an, tk, rp) = match (m, an, tk, rp) {
                        (Out::Ok(m), Out::Ok(a), Out::Ok(t), Out::Ok(r)) => (m, a, t, r),
                        (m, a, t, r) => {
                            if m.is_crash() || a.is_crash() || t.is_crash() || r.is_crash() {
                                out.inc("inconclusive_crash");
                            } else {
                                out.fail("C13", &case.clone().api("all"), "LiteralApiFails", "Ok from every API", &format!("is_match={} analyze={} tokenize={} replace_all={}", m.show(), a.show(), t.show(), r.show()), "");
                            }
                            continue;
                        }
                    };
                    out.inc("validated");
                    if definite_yes && !m {
                        out.fail("C13", &case.clone().api("is_match"), "WrongFalse", "true", "false", "the literal occurs (characters equal or simple case counterparts)");
                    }
                    if all_no && m {
                        out.fail("C13", &case.clone().api("is_match"), "WrongTrue", "false", "true", "no alignment relates the characters by any simple case mapping or folding");
                    }
                    // the three scan loops agree on the pieces (model-free, as in C04)
                    crate::checks::c04::judge_as("C13", out, "NALIT", &lit, flags, false, &re, inp);
                    // the four APIs see the same occurrences
                    let found_an = an.iter().any(|e| matches!(e, AnalyzeEntry::Match(_)));
                    let found_tk = tk.len() > 1;
                    let found_rp = rp.contains('\u{1}');
                    if !(m == found_an && (inp.is_empty() || m == found_tk) && m == found_rp) {
                        out.fail(
                            "C13",
                            &case.clone().api("all"),
                            "ApisDisagreeOnOccurrence",
                            "is_match, analyze, tokenize and replace_all agree on whether the literal occurs",
                            &format!("is_match={} analyze={} tokenize={} replace_all={}", m, found_an, found_tk, found_rp),
                            "",
                        );
                    }
                }
            }
            out.sample(J::obj(vec![("literal", J::s(&lit)), ("flags", J::s("q qi iq qims"))]));
        }
    }
}

fn fold(s: &str, ci: bool) -> String {
    if ci {
        s.to_ascii_lowercase()
    } else {
        s.to_string()
    }
}

/// Non-overlapping leftmost occurrences of `needle` in `hay` (char offsets irrelevant: ASCII alphabet).
fn occurrences(hay: &str, needle: &str, ci: bool) -> Vec<(usize, usize)> {
    let h = fold(hay, ci);
    let n = fold(needle, ci);
    let mut out = vec![];
    let mut pos = 0;
    while let Some(ix) = h[pos..].find(&n) {
        out.push((pos + ix, pos + ix + n.len()));
        pos = pos + ix + n.len();
    }
    out
}

impl Check for C13 {
    fn id(&self) -> &'static str {
        "C13"
    }
    fn plan(&self, ctx: &Ctx) -> Plan {
        let s = space_for(ctx.tier);
        Plan {
            chunks: s.chunks(),
            layer_of: s.layer_fn(),
            description: format!(
                "every literal string over {:?} ({}) x flag sets {:?} x inputs derived from the literal (itself, prefixed, suffixed, doubled, case-swapped, one character removed, all strings of length <= 1 over the alphabet) x replacement strings {:?}, all four matching APIs",
                ALPHA,
                s.describe(),
                FLAGSETS,
                REPLS
            ),
            rule: "exhaustive; a literal is non-trivial when it contains a regex metacharacter".into(),
            assumptions: vec![
                "oracle: str::find / replace / split of the Rust standard library on the ASCII alphabet; case folding under i is ASCII lower-casing (alphabet has only ASCII letters)".into(),
                "the empty literal must be reported as matching the empty string by replace_all / analyze / tokenize".into(),
            ],
        }
    }
    fn run_chunk(&self, ctx: &Ctx, chunk: u64, out: &mut ChunkOut) {
        let sp = space_for(ctx.tier);
        let (seg, lo, hi) = sp.locate(chunk);
        if crate::space::seg_scope_name(seg) == "bracket literals" {
            // every string of 1..6 characters over ( ) a as a literal: the scan APIs must not look
            // at the parentheses (analyze builds no group table under q)
            const PA: [&str; 3] = ["(", ")", "a"];
            for i in lo..hi {
                let (mut len, mut idx, mut block) = (1usize, i, 3u64);
                while idx >= block {
                    idx -= block;
                    block *= 3;
                    len += 1;
                }
                let d = crate::util::nth_token_string(&PA, len, idx);
                let lit = crate::gen::tokens_to_string(&PA, &d);
                for flags in ["q", "qi"] {
                    if let Out::Ok(re) = imp::compile(&lit, flags, false) {
                        out.inc("nontrivial");
                        for inp in [format!("a{}b", lit), format!("{}{}", lit, lit), "()".to_string(), lit.clone()] {
                            crate::checks::c04::judge_as("C13", out, "PARLIT", &lit, flags, false, &re, &inp);
                        }
                    } else {
                        out.fail("C13", &Case::new("PARLIT", &lit, flags).api("compile"), "LiteralRejected", "Ok", "rejected", "");
                    }
                }
            }
            out.sample(J::obj(vec![("bracket_literals", J::s("strings of 1..6 characters over ( ) a"))]));
            return;
        }
        if crate::space::seg_scope_name(seg) == "long literals" {
            // literals of 13..36 characters against every input that differs from the literal in
            // exactly one position (and the literal itself, embedded): prefix-length shortcuts
            const BASE: &str = "0123456789abcdef+*(xyz)[.]{2}\\|^$?AB";
            let base: Vec<char> = BASE.chars().collect();
            for k in lo..hi {
                let n = 13 + k as usize;
                let lit: String = base[..n.min(base.len())].iter().collect();
                let lc: Vec<char> = lit.chars().collect();
                for flags in ["q", "qi"] {
                    let re = match imp::compile(&lit, flags, false) {
                        Out::Ok(r) => r,
                        o => {
                            if !o.is_crash() {
                                out.fail("C13", &Case::new("LONGLIT", &lit, flags).api("compile"), "LiteralRejected", "Ok", &format!("{:?}", o.map(|_| ())), "");
                            }
                            continue;
                        }
                    };
                    let mut cases: Vec<(String, bool)> = vec![(lit.clone(), true), (format!("--{}--{}", lit, lit), true)];
                    for pos in 0..lc.len() {
                        let mut m = lc.clone();
                        m[pos] = if m[pos] == '#' { '%' } else { '#' };
                        cases.push((m.iter().collect(), false));
                        cases.push((format!("x{}x", m.iter().collect::<String>()), false));
                    }
                    cases.push((lc[..lc.len() - 1].iter().collect(), false));
                    cases.push((lc[1..].iter().collect(), false));
                    for (inp, want) in cases {
                        out.inc("states");
                        let m = imp::is_match(&re, &inp);
                        let r = imp::replace_all(&re, &inp, "\u{1}");
                        if let (Out::Ok(m), Out::Ok(r)) = (m, r) {
                            out.inc("validated");
                            let found = r.contains('\u{1}');
                            if m != want || found != want {
                                out.fail("C13", &Case::new("LONGLIT", &lit, flags).input(&inp).api("is_match"), if want { "WrongFalse" } else { "WrongTrue" }, &want.to_string(), &format!("is_match={} replace_all finds={}", m, found), "the literal occurs iff it is a contiguous substring");
                            }
                        } else {
                            out.inc("inconclusive_crash");
                        }
                    }
                }
                out.inc("nontrivial");
                out.sample(J::obj(vec![("literal", J::s(&lit)), ("flags", J::s("q qi"))]));
            }
            return;
        }
        if crate::space::seg_scope_name(seg) == "flag strings" {
            let n = super::common::flag_effect(out, "C13", 'q');
            out.sample(J::obj(vec![("flag_strings_probed", J::i(n as usize))]));
            return;
        }
        if crate::space::seg_scope_name(seg).starts_with("non-ASCII") {
            self.non_ascii(out, lo, hi);
            return;
        }
        for idx in lo..hi {
            let lit = literal(idx);
            let nontrivial = lit.chars().any(|c| "()[]{}\\?*+|.^$-".contains(c));
            if nontrivial {
                out.inc("nontrivial");
            }
            let mut inputs: Vec<String> = vec![String::new(), lit.clone(), format!("x{}", lit), format!("{}x", lit), format!("{}{}", lit, lit), format!("{}-{}", lit, lit)];
            let swapped: String = lit.chars().map(|c| if c.is_ascii_lowercase() { c.to_ascii_uppercase() } else { c.to_ascii_lowercase() }).collect();
            inputs.push(swapped.clone());
            inputs.push(format!("1{}1", swapped));
            if !lit.is_empty() {
                let cs: Vec<char> = lit.chars().collect();
                inputs.push(cs[1..].iter().collect());
                inputs.push(cs[..cs.len() - 1].iter().collect());
            }
            for a in ALPHA {
                inputs.push(a.to_string());
            }
            inputs.sort();
            inputs.dedup();
            for flags in FLAGSETS {
                let ci = flags.contains('i');
                let base = Case::new("LIT", &lit, flags);
                out.pin(&|| format!("literal {:?} flags {:?}", lit, flags));
                // the same text as a regular expression first: nothing of it may carry over
                let _ = imp::compile(&lit, &flags.replace('q', ""), false);
                let re = match imp::compile(&lit, flags, false) {
                    Out::Ok(re) => re,
                    o => {
                        out.inc("states");
                        out.inc("validated");
                        if o.is_crash() {
                            out.inc("inconclusive_crash");
                        } else {
                            out.fail("C13", &base.clone().api("compile"), "LiteralRejected", "Ok (every string is a valid literal pattern)", &format!("{:?}", o.map(|_| ())), "");
                        }
                        continue;
                    }
                };
                for inp in &inputs {
                    let occ = if lit.is_empty() { vec![] } else { occurrences(inp, &lit, ci) };
                    let case = base.clone().input(inp);
                    out.inc("states");
                    // is_match
                    let want = lit.is_empty() || !occ.is_empty();
                    match imp::is_match(&re, inp) {
                        Out::Ok(g) => {
                            out.inc("validated");
                            if g != want {
                                out.fail("C13", &case.clone().api("is_match"), if g { "WrongTrue" } else { "WrongFalse" }, &want.to_string(), &g.to_string(), "substring search");
                            }
                        }
                        _ => out.inc("inconclusive_crash"),
                    }
                    if lit.is_empty() {
                        // empty literal: MatchesEmptyString from the scan APIs
                        for (api, is_err) in [
                            ("replace_all", matches!(imp::replace_all(&re, inp, "a"), Out::Err(EK::MatchesEmptyString))),
                            ("analyze", matches!(imp::analyze(&re, inp), Out::Err(EK::MatchesEmptyString))),
                        ] {
                            out.inc("validated");
                            if !is_err {
                                out.fail("C13", &case.clone().api(api), "EmptyLiteralNotRejected", "Err(MatchesEmptyString)", "something else", "");
                            }
                        }
                        continue;
                    }
                    // expected pieces
                    let mut pieces = vec![];
                    let mut pos = 0;
                    for (a, b) in &occ {
                        pieces.push(inp[pos..*a].to_string());
                        pos = *b;
                    }
                    pieces.push(inp[pos..].to_string());
                    // tokenize
                    let want_tokens: Vec<String> = if inp.is_empty() { vec![] } else { pieces.clone() };
                    match imp::tokenize(&re, inp) {
                        Out::Ok(t) => {
                            out.inc("validated");
                            if t != want_tokens {
                                out.fail("C13", &case.clone().api("tokenize"), "WrongTokens", &format!("{:?}", want_tokens), &format!("{:?}", t), "split on the literal");
                            }
                        }
                        o if o.is_crash() => out.inc("inconclusive_crash"),
                        o => out.fail("C13", &case.clone().api("tokenize"), "LiteralApiFails", "Ok", &o.show(), ""),
                    }
                    // analyze: same partition, single-String matches
                    match imp::analyze(&re, inp) {
                        Out::Ok(an) => {
                            out.inc("validated");
                            let mut want: Vec<AnalyzeEntry> = vec![];
                            let mut pos = 0;
                            for (a, b) in &occ {
                                if *a > pos {
                                    want.push(AnalyzeEntry::NonMatch(inp[pos..*a].to_string()));
                                }
                                want.push(AnalyzeEntry::Match(vec![MatchEntry::String(inp[*a..*b].to_string())]));
                                pos = *b;
                            }
                            if pos < inp.len() {
                                want.push(AnalyzeEntry::NonMatch(inp[pos..].to_string()));
                            }
                            if an != want {
                                out.fail("C13", &case.clone().api("analyze"), "WrongAnalyze", &format!("{:?}", want), &format!("{:?}", an), "no groups, single String matches");
                            }
                        }
                        o if o.is_crash() => out.inc("inconclusive_crash"),
                        o => out.fail("C13", &case.clone().api("analyze"), "LiteralApiFails", "Ok", &o.show(), ""),
                    }
                    // replace_all: replacement verbatim
                    for r in REPLS {
                        let want = pieces.join(r);
                        match imp::replace_all(&re, inp, r) {
                            Out::Ok(g) => {
                                out.inc("validated");
                                if g != want {
                                    out.fail("C13", &case.clone().repl(r).api("replace_all"), "WrongReplace", &want, &g, "replacement used verbatim");
                                }
                            }
                            o if o.is_crash() => out.inc("inconclusive_crash"),
                            o => {
                                out.inc("validated");
                                out.fail("C13", &case.clone().repl(r).api("replace_all"), "LiteralApiFails", &format!("Ok({:?})", want), &o.show(), "$ and \\ are ordinary under q");
                            }
                        }
                    }
                }
            }
            out.sample(J::obj(vec![("literal", J::s(&lit)), ("flags", J::s(format!("{:?}", FLAGSETS)))]));
        }
    }
}
