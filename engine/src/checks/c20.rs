//! C20 — equivalent spellings of a pattern behave identically. Model-free:
//! every AST of the scopes x every applicable law x every position is
//! rewritten, and both spellings are compared on every flag subset and input
//! (is_match always; spans when the law preserves ordered choice, neither
//! spelling quantifies a possibly-empty body and the rewritten part has no
//! capturing group). When the spellings differ, the reference model names the
//! wrong one (written into the violation file).

use super::common::{self, Compiled};
use crate::core::{Case, Check, ChunkOut, Ctx, Plan, Tier};
use crate::gen::{self, Scope, G};
use crate::imp::{self, Out};
use crate::sem::{Fl, Sem};
use crate::space::{self, SegKind, Space};
use crate::util::{all_strings, FLAG_SUBSETS_IMS, J};

pub struct C20;

fn space_for(tier: Tier) -> (Space, usize) {
    let mut s = Space::new();
    match tier {
        Tier::Quick => {
            s.ast("K", 3, 32).ast("Q", 2, 32);
            s.ast_range("K", 4, 4, 32, 2);
            s.ast_range("ALT", 1, 3, 16, 4).ast_range("LP", 1, 3, 16, 5).ast_range("FX", 1, 4, 16, 6);
            s.ast_range("ALTS", 1, 4, 16, 4).ast_range("SEQO", 1, 5, 16, 4).ast_range("HI", 1, 3, 16, 4).ast_range("HIQ", 1, 4, 16, 3).ast_range("QN", 1, 4, 8, 11).ast_range("ALTM", 1, 4, 16, 4);
            s.tok("SPELL", &gen::T_SPELL, 5, 256);
            s.ast_range("EMPB", 1, 5, 16, 4);
            s.list("laws on trigger patterns", crate::checks::c08::triggers().len() as u64, 16);
            (s, 3)
        }
        Tier::Thorough => {
            s.ast("K", 4, 32).ast("Q", 3, 32).ast("CL", 3, 32);
            s.ast_range("ALT", 1, 4, 16, 3).ast_range("LP", 1, 4, 16, 5).ast_range("FX", 1, 4, 16, 6);
            s.ast_range("ALTS", 1, 4, 16, 4).ast_range("SEQO", 1, 5, 16, 4).ast_range("HI", 1, 4, 16, 4).ast_range("HIQ", 1, 4, 16, 4).ast_range("QN", 1, 4, 8, 11).ast_range("ALTM", 1, 4, 16, 4);
            s.ast_range("K", 5, 5, 128, 203).ast_range("CL", 4, 4, 64, 203).ast_range("KL", 1, 3, 8, 207);
            s.tok("SPELL", &gen::T_SPELL, 6, 256);
            s.ast_range("EMPB", 1, 5, 16, 4);
            s.list("laws on trigger patterns", crate::checks::c08::triggers().len() as u64, 16);
            (s, 4)
        }
    }
}

// ---------------------------------------------------------------------------
// laws on parsed text (the trigger patterns of C08: shapes of 8 - 12 nodes that no AST
// scope reaches). One node is rewritten at a time; every law used here keeps ordered
// choice, so spans are compared as well. Bodies that contain a capturing group are never
// duplicated (group numbers stay).

use crate::refparse::Ast;

fn local_laws(a: &Ast) -> Vec<(&'static str, Ast)> {
    let nc = |x: Ast| Ast::NonCap(Box::new(x));
    let mut v = vec![];
    match a {
        Ast::Rep(b, min, max, g) if !b.has_group() => {
            let b0 = (**b).clone();
            let rep = |lo: u32, hi: Option<u32>| Ast::Rep(b.clone(), lo, hi, *g);
            match (*min, *max) {
                (1, None) => v.push(("r+ = r r*", Ast::Seq(vec![b0.clone(), rep(0, None)]))),
                (0, None) => v.push(("r* = (?:r+)?", Ast::Rep(Box::new(nc(rep(1, None))), 0, Some(1), *g))),
                (0, Some(1)) => v.push(("r? = (?:r|)", if *g { nc(Ast::Alt(vec![b0.clone(), Ast::Empty])) } else { nc(Ast::Alt(vec![Ast::Empty, b0.clone()])) })),
                (2, Some(2)) => v.push(("r{2} = r r", Ast::Seq(vec![b0.clone(), b0.clone()]))),
                (3, Some(3)) => v.push(("r{3} = r r r", Ast::Seq(vec![b0.clone(), b0.clone(), b0.clone()]))),
                (1, Some(2)) => v.push(("r{1,2} = r r?", Ast::Seq(vec![b0.clone(), rep(0, Some(1))]))),
                (2, Some(3)) => v.push(("r{2,3} = r r r?", Ast::Seq(vec![b0.clone(), b0.clone(), rep(0, Some(1))]))),
                (2, None) => v.push(("r{2,} = r r r*", Ast::Seq(vec![b0.clone(), b0.clone(), rep(0, None)]))),
                _ => {}
            }
            // the operand in a group of its own
            v.push(("rq = (?:r)q", Ast::Rep(Box::new(nc(b0)), *min, *max, *g)));
        }
        Ast::Lit(_) | Ast::Dot | Ast::Class(_) | Ast::Esc(_) | Ast::Group(..) | Ast::BackRef(_) => v.push(("r = (?:r)", nc(a.clone()))),
        _ => {}
    }
    v
}

/// Every spelling obtained by rewriting exactly one node.
fn law_variants(a: &Ast) -> Vec<(&'static str, Ast)> {
    let mut v = local_laws(a);
    match a {
        Ast::Seq(xs) | Ast::Alt(xs) => {
            for (i, x) in xs.iter().enumerate() {
                for (law, nx) in law_variants(x) {
                    let mut ys = xs.clone();
                    ys[i] = nx;
                    v.push((law, if matches!(a, Ast::Seq(_)) { Ast::Seq(ys) } else { Ast::Alt(ys) }));
                }
            }
        }
        Ast::Rep(b, min, max, g) => {
            for (law, nb) in law_variants(b) {
                // a quantifier's operand stays an atom or a group
                if matches!(nb, Ast::NonCap(_) | Ast::Group(..)) {
                    v.push((law, Ast::Rep(Box::new(nb), *min, *max, *g)));
                }
            }
        }
        Ast::Group(k, b) => {
            for (law, nb) in law_variants(b) {
                v.push((law, Ast::Group(*k, Box::new(nb))));
            }
        }
        Ast::NonCap(b) => {
            for (law, nb) in law_variants(b) {
                v.push((law, Ast::NonCap(Box::new(nb))));
            }
        }
        _ => {}
    }
    v
}

fn trigger_laws_chunk(ctx: &Ctx, scope_name: &str, lo: u64, hi: u64, out: &mut ChunkOut) {
    let t = crate::checks::c08::triggers();
    let mut inputs = all_strings(&['a', 'b', 'c', 'd'], 3);
    inputs.extend(["aaaa", "abab", "aaab", "ababb", "1111", "a1", "b21", "\n\na\n", "a\nb", "zzy", "xyz", "abcab", "aabb", "aAbB", "abdd", "abdcd"].iter().map(|s| s.to_string()));
    let flag_menu: &[&str] = if ctx.tier == Tier::Quick { &[""] } else { &["", "ims"] };
    for i in lo..hi {
        let text = &t[i as usize];
        let parsed = match common::ref_valid(text, ctx) {
            Some(p) => p,
            None => continue,
        };
        if parsed.ast.has_nullable_loop() {
            out.inc("nullable_loop_skipped");
            continue;
        }
        out.shape = parsed.ast.shape();
        for (law, na) in law_variants(&parsed.ast) {
            let other = crate::refparse::render(&na);
            // the rewritten text must still be what was meant
            match common::ref_valid(&other, ctx) {
                Some(p2) if p2.groups == parsed.groups && !p2.ast.has_nullable_loop() => {}
                _ => {
                    out.inc("rewrite_not_reparsed_skipped");
                    continue;
                }
            }
            for flags in flag_menu {
                let (ra, rb) = match (common::compile(text, flags, false), common::compile(&other, flags, false)) {
                    (Compiled::Ok(a), Compiled::Ok(b)) => (a, b),
                    _ => {
                        out.inc("rejected_or_crash");
                        continue;
                    }
                };
                out.inc("nontrivial");
                for inp in &inputs {
                    out.inc("states");
                    let (ma, mb) = (imp::is_match(&ra, inp), imp::is_match(&rb, inp));
                    let (sa, sb) = (imp::spans_from_replace(&ra, inp), imp::spans_from_replace(&rb, inp));
                    if (ma.is_crash() && mb.is_crash()) || (sa.is_crash() && sb.is_crash()) {
                        out.inc("inconclusive_crash");
                        continue;
                    }
                    out.inc("validated");
                    // (a regex that matches the empty string has no spans to compare: both Err)
                    if ma != mb || sa != sb {
                        out.fail(
                            "C20",
                            &Case::new(scope_name, text, flags).input(inp).repl(&format!("law:{} -> {}", law, other)).api(if ma != mb { "is_match" } else { "replace_all" }),
                            if ma != mb { "SpellingsDiffer" } else { "SpansDiffer" },
                            &format!("same answer for {:?} and {:?}", text, other),
                            &format!("{} {:?} vs {} {:?}", ma.show(), sa.ok(), mb.show(), sb.ok()),
                            "",
                        );
                    }
                }
            }
        }
        out.sample(J::obj(vec![("trigger_pattern", J::s(text))]));
    }
}

/// A rewritten pattern text together with the law's name and whether the law
/// preserves ordered choice (so that spans can be compared).
struct Rewrite {
    law: &'static str,
    text: String,
    spans: bool,
}

fn parse_quant(q: &str) -> Option<(u32, Option<u32>, bool)> {
    let (body, greedy) = match q.strip_suffix('?') {
        Some(b) if !b.is_empty() => (b, false),
        _ => (q, true),
    };
    let r = match body {
        "*" => (0, None),
        "+" => (1, None),
        "?" => (0, Some(1)),
        _ => {
            let inner = body.strip_prefix('{')?.strip_suffix('}')?;
            match inner.split_once(',') {
                None => {
                    let n = inner.parse().ok()?;
                    (n, Some(n))
                }
                Some((a, "")) => (a.parse().ok()?, None),
                Some((a, b)) => (a.parse().ok()?, Some(b.parse().ok()?)),
            }
        }
    };
    Some((r.0, r.1, greedy))
}

/// Render `g` as an operand of concatenation / quantifier: always atomic.
fn atomic(sc: &Scope, g: &G) -> String {
    match g {
        G::Leaf(i) if gen::leaf_is_atomic(sc.leaves[*i]) => sc.render(g),
        G::Cap(_) => sc.render(g),
        _ => format!("(?:{})", sc.render(g)),
    }
}

fn has_cap(g: &G) -> bool {
    match g {
        G::Leaf(_) => false,
        G::Cap(_) => true,
        G::Un(_, a) => has_cap(a),
        G::Cat(a, b) | G::Alt(a, b) => has_cap(a) || has_cap(b),
    }
}

/// All rewrites of the subtree `g` itself (not of its descendants), as texts
/// that can replace `g` in any context (always atomic).
fn local_rewrites(sc: &Scope, g: &G) -> Vec<Rewrite> {
    let mut v = vec![];
    let plain = atomic(sc, g);
    // wrapping in (?:...)
    v.push(Rewrite { law: "r = (?:r)", text: format!("(?:{})", sc.render(g)), spans: true });
    // r{1} = r
    v.push(Rewrite { law: "r = r{1}", text: format!("(?:{}{{1}})", plain), spans: true });
    // r|r = r
    v.push(Rewrite { law: "r = r|r", text: format!("(?:{}|{})", sc.render(g), sc.render(g)), spans: !has_cap(g) });
    match g {
        G::Leaf(i) => {
            let l = sc.leaves[*i];
            // x = [x] for single literal characters
            if l.chars().count() == 1 && l.chars().all(|c| c.is_ascii_alphanumeric()) {
                v.push(Rewrite { law: "x = [x]", text: format!("[{}]", l), spans: true });
            }
            // [xy] = (?:x|y)
            if l == "[ab]" {
                v.push(Rewrite { law: "[xy] = (?:x|y)", text: "(?:a|b)".to_string(), spans: true });
            }
        }
        G::Cap(a) => {
            // capturing -> non-capturing (no back-references in these scopes)
            v.push(Rewrite { law: "(r) = (?:r)", text: format!("(?:{})", sc.render(a)), spans: true });
        }
        G::Un(u, a) => {
            if let Some((min, max, greedy)) = parse_quant(sc.unary[*u]) {
                let body = atomic(sc, a);
                let nocap = !has_cap(a);
                let lazy = if greedy { "" } else { "?" };
                match max {
                    Some(0) => v.push(Rewrite { law: "r{0} = empty", text: "(?:)".to_string(), spans: true }),
                    Some(m) if m <= 4 => {
                        // r{n,m} = n copies of r followed by m-n copies of (?:r)?
                        let mut t = String::from("(?:");
                        for _ in 0..min {
                            t.push_str(&body);
                        }
                        for _ in min..m {
                            t.push_str(&format!("(?:{})?{}", sc.render(a), lazy));
                        }
                        t.push(')');
                        // n copies then nested optionals would preserve order exactly; the flat
                        // form preserves the language always and ordered choice when greedy
                        v.push(Rewrite { law: "r{n,m} = r^n (?:r)?^(m-n)", text: t, spans: nocap && m - min <= 1 });
                    }
                    None if min <= 3 => {
                        // r{n,} = n copies of r followed by r*
                        let mut t = String::from("(?:");
                        for _ in 0..min {
                            t.push_str(&body);
                        }
                        t.push_str(&format!("{}*{})", body, lazy));
                        v.push(Rewrite { law: "r{n,} = r^n r*", text: t, spans: nocap });
                        if min == 1 {
                            v.push(Rewrite { law: "r+ = rr*", text: format!("(?:{}{}*{})", body, body, lazy), spans: nocap });
                        }
                    }
                    _ => {}
                }
            }
        }
        G::Cat(a, b) => {
            // (?:r|s)t = rt|st
            if let G::Alt(r, s) = &**a {
                let t = atomic(sc, b);
                v.push(Rewrite {
                    law: "(?:r|s)t = rt|st",
                    text: format!("(?:{}{}|{}{})", atomic(sc, r), t, atomic(sc, s), t),
                    spans: !has_cap(b),
                });
            }
        }
        G::Alt(..) => {}
    }
    v
}

/// Render `g` with the subtree at pre-order position `target` replaced by `with`.
fn render_with(sc: &Scope, g: &G, counter: &mut usize, target: usize, with: &str, prec: u8, out: &mut String) {
    let me = *counter;
    *counter += 1;
    if me == target {
        out.push_str(with);
        // skip the subtree's numbering
        fn count(g: &G) -> usize {
            match g {
                G::Leaf(_) => 1,
                G::Un(_, a) | G::Cap(a) => 1 + count(a),
                G::Cat(a, b) | G::Alt(a, b) => 1 + count(a) + count(b),
            }
        }
        *counter += count(g) - 1;
        return;
    }
    match g {
        G::Leaf(i) => out.push_str(sc.leaves[*i]),
        G::Cap(a) => {
            out.push('(');
            render_with(sc, a, counter, target, with, 0, out);
            out.push(')');
        }
        G::Cat(a, b) => {
            if prec > 1 {
                out.push_str("(?:");
            }
            render_with(sc, a, counter, target, with, 1, out);
            render_with(sc, b, counter, target, with, 1, out);
            if prec > 1 {
                out.push(')');
            }
        }
        G::Alt(a, b) => {
            if prec > 0 {
                out.push_str("(?:");
            }
            render_with(sc, a, counter, target, with, 1, out);
            out.push('|');
            render_with(sc, b, counter, target, with, 0, out);
            if prec > 0 {
                out.push(')');
            }
        }
        G::Un(u, a) => {
            // the operand position may be replaced by an atomic text, which needs no extra group
            let operand_is_target = *counter == target;
            match **a {
                G::Un(..) if !operand_is_target => {
                    out.push_str("(?:");
                    render_with(sc, a, counter, target, with, 0, out);
                    out.push(')');
                }
                G::Leaf(i) if !operand_is_target && !gen::leaf_is_atomic(sc.leaves[i]) => {
                    out.push_str("(?:");
                    render_with(sc, a, counter, target, with, 0, out);
                    out.push(')');
                }
                _ => render_with(sc, a, counter, target, with, 2, out),
            }
            out.push_str(sc.unary[*u]);
        }
    }
}

fn subtrees<'a>(g: &'a G, out: &mut Vec<&'a G>) {
    out.push(g);
    match g {
        G::Leaf(_) => {}
        G::Un(_, a) | G::Cap(a) => subtrees(a, out),
        G::Cat(a, b) | G::Alt(a, b) => {
            subtrees(a, out);
            subtrees(b, out);
        }
    }
}

impl Check for C20 {
    fn id(&self) -> &'static str {
        "C20"
    }
    fn plan(&self, ctx: &Ctx) -> Plan {
        let (s, maxlen) = space_for(ctx.tier);
        Plan {
            chunks: s.chunks(),
            layer_of: s.layer_fn(),
            description: format!(
                "every pattern AST x every applicable law (wrap in (?:), r{{1}}, r{{n,m}} expansion, r{{n,}} expansion, r+ = rr*, r{{0}} = empty, [xy] = (?:x|y), x = [x], r|r = r, (?:r|s)t = rt|st, capturing -> non-capturing) x every rewrite position x 8 flag subsets x every input of length <= {}: {}",
                maxlen,
                s.describe()
            ),
            rule: "exhaustive; one state = one (pattern, law, position, flags, input) comparison of two real programs; a pair is non-trivial when the two spellings compile to different programs".into(),
            assumptions: vec![
                "model-free differential oracle; the reference language is only consulted to name the wrong spelling in a violation file".into(),
                "spans are compared only when the law preserves ordered choice, neither spelling quantifies a possibly-empty body and the rewritten part has no capturing group".into(),
            ],
        }
    }
    fn run_chunk(&self, ctx: &Ctx, chunk: u64, out: &mut ChunkOut) {
        let (sp, maxlen) = space_for(ctx.tier);
        let (seg, lo, hi) = sp.locate(chunk);
        let scope_name = space::seg_scope_name(seg);
        if let SegKind::Tok { .. } = seg.kind {
            // every law r{1} = r and (?:r) = r applied at all positions at once: the token
            // string against its plain spelling, on every input over a d
            let inputs = all_strings(&['a', 'd'], 6);
            space::for_each_text(seg, lo, hi, &mut |_i, text| {
                let plain = text.replace("a{1}", "a").replace("(?:a)", "a").replace("(?:d){1}", "d");
                if plain == text {
                    return;
                }
                let (ra, rb) = match (common::compile(text, "", false), common::compile(&plain, "", false)) {
                    (Compiled::Ok(a), Compiled::Ok(b)) => (a, b),
                    _ => {
                        out.inc("rejected_or_crash");
                        return;
                    }
                };
                out.inc("nontrivial");
                for inp in &inputs {
                    out.inc("states");
                    let (ma, mb) = (imp::is_match(&ra, inp), imp::is_match(&rb, inp));
                    let (sa, sb) = (imp::spans_from_replace(&ra, inp), imp::spans_from_replace(&rb, inp));
                    if ma.is_crash() && mb.is_crash() {
                        out.inc("inconclusive_crash");
                        continue;
                    }
                    out.inc("validated");
                    if ma != mb || sa != sb {
                        out.fail(
                            "C20",
                            &Case::new(&scope_name, text, "").input(inp).repl("law:r{1} = r, (?:r) = r at every position").api(if ma != mb { "is_match" } else { "replace_all" }),
                            if ma != mb { "SpellingsDiffer" } else { "SpansDiffer" },
                            &format!("same answer for {:?} and {:?}", text, plain),
                            &format!("{} {:?} vs {} {:?}", ma.show(), sa.ok(), mb.show(), sb.ok()),
                            "",
                        );
                    }
                }
                out.sample(J::obj(vec![("spelling", J::s(text)), ("plain", J::s(&plain))]));
            });
            return;
        }
        if let SegKind::List { .. } = seg.kind {
            trigger_laws_chunk(ctx, &scope_name, lo, hi, out);
            return;
        }
        let (scope, size) = match &seg.kind {
            SegKind::Ast { scope, size } => (*scope, *size),
            _ => unreachable!(),
        };
        let sc = gen::scope(scope);
        // layer parameter: input-length bound + 100 * restriction (see C01)
        let restriction = seg.param / 100;
        let maxlen = if seg.param % 100 > 0 { seg.param % 100 } else { maxlen };
        let inputs = all_strings(&sc.sigma, maxlen);
        let inputs_c: Vec<Vec<char>> = inputs.iter().map(|s| s.chars().collect()).collect();
        for idx in lo..hi {
            let g = sc.nth(size, idx);
            let text = sc.render(&g);
            let parsed = match common::ref_valid(&text, ctx) {
                Some(p) => p,
                None => continue,
            };
            if (restriction >= 1 && parsed.ast.has_nullable_loop()) || (restriction >= 2 && parsed.ast.quant_depth() >= 2) {
                out.inc("restricted_layer_skipped");
                continue;
            }
            let mut subs = vec![];
            subtrees(&g, &mut subs);
            let mut pairs: Vec<(usize, Rewrite, String)> = vec![];
            for (pos, sub) in subs.iter().enumerate() {
                for rw in local_rewrites(&sc, sub) {
                    let mut t = String::new();
                    let mut counter = 0;
                    render_with(&sc, &g, &mut counter, pos, &rw.text, 0, &mut t);
                    pairs.push((pos, rw, t));
                }
            }
            out.shape = parsed.ast.shape();
            for (pos, rw, text2) in &pairs {
                let parsed2 = match common::ref_valid(text2, ctx) {
                    Some(p) => p,
                    None => {
                        out.inc("rewrite_invalid_machinery_note");
                        continue;
                    }
                };
                let compare_spans = rw.spans && !parsed.ast.has_nullable_loop() && !parsed2.ast.has_nullable_loop();
                for flags in FLAG_SUBSETS_IMS {
                    let (a, b) = match (common::compile(&text, flags, false), common::compile(text2, flags, false)) {
                        (Compiled::Ok(a), Compiled::Ok(b)) => (a, b),
                        _ => {
                            out.inc("rejected_or_crash");
                            continue;
                        }
                    };
                    if a.verif_program() != b.verif_program() {
                        out.inc("nontrivial");
                    }
                    let fl = Fl::parse(flags);
                    for (k, inp) in inputs.iter().enumerate() {
                        out.pin(&|| format!("{:?} vs {:?} {:?} {:?}", text, text2, flags, inp));
                        out.inc("states");
                        let (ga, gb) = (imp::is_match(&a, inp), imp::is_match(&b, inp));
                        let (ga, gb) = match (ga, gb) {
                            (Out::Ok(x), Out::Ok(y)) => (x, y),
                            (x, y) => {
                                if x.is_crash() != y.is_crash() {
                                    out.inc("validated");
                                    out.fail("C20", &Case::new(&scope_name, &text, flags).input(inp).repl(&format!("law:{}@{}", rw.law, pos)).api("is_match"), "OnlyOneSpellingCrashes", &format!("same outcome for {:?} and {:?}", text, text2), &format!("{} vs {}", x.show(), y.show()), "a panic or an exhausted step budget for one spelling only is a difference");
                                } else {
                                    out.inc("inconclusive_crash");
                                }
                                continue;
                            }
                        };
                        out.inc("validated");
                        let note = |sem_input: &Vec<char>| -> String {
                            let sem = Sem { s: sem_input, f: fl, ucd: &ctx.ucd };
                            let w = sem.lang_is_match(&parsed.ast);
                            format!("law {} at position {}; rewritten spelling {:?}; the reference language says is_match = {}", rw.law, pos, text2, w)
                        };
                        if ga != gb {
                            let mut case = Case::new(&scope_name, &text, flags).input(inp).api("is_match");
                            case.replacement = format!("law:{}@{}", rw.law, pos);
                            out.fail("C20", &case, "SpellingsDiffer", &format!("same answer for {:?} and {:?}", text, text2), &format!("{} vs {}", ga, gb), &note(&inputs_c[k]));
                            continue;
                        }
                        if compare_spans && ga {
                            if let (Out::Ok(x), Out::Ok(y)) = (imp::analyze(&a, inp), imp::analyze(&b, inp)) {
                                let (sx, sy) = (imp::spans_from_analyze(&x), imp::spans_from_analyze(&y));
                                if sx != sy {
                                    let mut case = Case::new(&scope_name, &text, flags).input(inp).api("analyze");
                                    case.replacement = format!("law:{}@{}", rw.law, pos);
                                    out.fail("C20", &case, "SpansDiffer", &format!("{:?}", sx), &format!("{:?} for {:?}", sy, text2), &note(&inputs_c[k]));
                                }
                            }
                        }
                    }
                }
            }
            if idx == lo {
                out.sample(J::obj(vec![
                    ("pattern", J::s(&text)),
                    ("rewrites", J::Arr(pairs.iter().take(6).map(|(p, r, t)| J::s(format!("{} @{} -> {}", r.law, p, t))).collect())),
                ]));
            }
        }
    }
}
