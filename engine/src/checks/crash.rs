//! C05 (no panic, only classified errors) and C06 (termination, finite fused
//! iterators). Both drive the complete API surface over (a) every valid
//! pattern of the AST scopes, (b) every token string up to a length bound
//! over the metacharacter token alphabets (which contains every dropped /
//! duplicated / swapped / truncated variant of every valid pattern of that
//! length), in both dialects, with a menu of flag strings, inputs and
//! replacement strings. They differ only in which observations they judge.

use crate::core::{Case, Check, ChunkOut, Ctx, Plan, Tier};
use crate::gen;
use crate::imp::{self, Out, EK};
use crate::space::{self, SegKind, Space};
use crate::util::{all_strings, J};
use regexml::Regex;

pub struct Crash {
    pub id: &'static str,
}

const FLAG_MENU: [&str; 12] = ["", "i", "m", "s", "x", "q", "ims", "imsx", "qi", "xq", "sm;g", "z"];
const FLAG_MENU_AST: [&str; 6] = ["", "i", "m", "s", "ims", "x"];
const REPLS: [&str; 13] = ["", "x", "$0", "$1", "$12", "\\$", "$", "\\", "$a", "$\u{663}", "$\u{b2}", "$1\u{663}", "\\\u{663}"];
// (the non-ASCII letters share their low byte with i, m, s, x, q and ';')
const FLAG_LETTERS: [&str; 18] = ["s", "m", "i", "x", "q", ";", "g", "k", "K", "z", " ", "\u{169}", "\u{16d}", "\u{173}", "\u{178}", "\u{171}", "\u{13b}", "\u{e9}"];

/// every replacement string of length <= 3 over C15's alphabet, then C15's long digit runs
const REPL_ITEMS: u64 = 1 + 8 + 64 + 512 + 10;
fn repl_item(i: u64) -> String {
    let n = crate::checks::c15::count(3);
    if i < n {
        crate::checks::c15::repl_string(i)
    } else {
        crate::checks::c15::LONG_RUNS[(i - n) as usize].to_string()
    }
}

fn space_for(tier: Tier) -> Space {
    let mut s = Space::new();
    match tier {
        Tier::Quick => {
            s.ast("K", 4, 64).ast("Q", 2, 64).ast("CL", 3, 64).ast("G", 5, 64).ast("AN", 3, 64).ast("U", 3, 64).ast("ALT", 3, 64).ast("NEST", 5, 64).ast("CAPQ", 5, 64).ast("BR", 4, 64);
            // one more kernel level, lighter: flags "" and "m", inputs of length <= 2
            s.ast_range("K", 5, 5, 256, 2);
            // line-anchored terms on inputs of up to six characters (three lines), flags "" and m
            s.ast_range("ANL", 1, 3, 64, 6);
            s.tok("T", &gen::T_FULL, 3, 64).tok("T0", &gen::T_CORE, 3, 64).tok("TU", &gen::T_UNI, 3, 64).tok("TQ", &gen::T_QUANT, 4, 64).tok("TG", &gen::T_GROUP, 5, 64).tok("TC", &gen::T_CLS, 4, 64).tok("TX", &gen::T_XCLS, 4, 64);
            s.ast("Z", 5, 64).ast("NESTN", 4, 64).ast("OPTG", 5, 64).ast("CAPR", 4, 64);
            s.list("flagstrings", 1 + 18 + 324 + 5832, 128);
            s.list("triggers", crate::checks::c08::triggers().len() as u64, 16);
            s.list("whitespace under x", xws_crash_cases().len() as u64, 16);
            s.list("extreme counts", extreme_count_cases().len() as u64, 16);
            s.list("deep nesting", (DEEP_SHAPES.len() * DEEP_DEPTHS.len()) as u64, 1);
            s.list("escape names", escape_name_cases().len() as u64, 32);
            s.list("replacement strings", REPL_ITEMS, 16);
        }
        Tier::Thorough => {
            s.ast("K", 5, 64).ast("Q", 3, 64).ast("CL", 3, 64).ast("G", 6, 64).ast("AN", 4, 64).ast("U", 4, 64).ast("CI", 3, 64).ast("ALT", 4, 64).ast("NEST", 6, 64).ast("GCM", 4, 64).ast("CAPQ", 6, 64).ast("BR", 5, 64);
            s.tok("T", &gen::T_FULL, 3, 64).tok("T0", &gen::T_CORE, 5, 64).tok("TU", &gen::T_UNI, 4, 64).tok("TQ", &gen::T_QUANT, 5, 64).tok("TG", &gen::T_GROUP, 6, 64).tok("TC", &gen::T_CLS, 5, 64).tok("TX", &gen::T_XCLS, 5, 64);
            s.ast("Z", 6, 64).ast("NESTN", 5, 64).ast("OPTG", 5, 64).ast("CAPR", 4, 64);
            s.ast_range("ANL", 1, 3, 64, 6);
            s.list("flagstrings", 1 + 18 + 324 + 5832, 128);
            s.list("triggers", crate::checks::c08::triggers().len() as u64, 16);
            s.list("whitespace under x", xws_crash_cases().len() as u64, 16);
            s.list("extreme counts", extreme_count_cases().len() as u64, 16);
            s.list("deep nesting", (DEEP_SHAPES.len() * DEEP_DEPTHS.len()) as u64, 1);
            s.list("escape names", escape_name_cases().len() as u64, 32);
            s.list("replacement strings", REPL_ITEMS, 16);
        }
    }
    s
}

/// Patterns with pattern whitespace for flag x: the C07 family plus escaped
/// parentheses / brackets (whitespace between the backslash and the bracket).
fn xws_crash_cases() -> Vec<String> {
    let mut v = crate::checks::c07::xws_cases();
    for b in ["a\\)", "\\(a\\)", "f\\(", "\\](b?)c", "\\[a\\]", "(a)\\)", "(a(b?))\\(", "[\\]]\\)(a?)"] {
        let cs: Vec<char> = b.chars().collect();
        for gap in 0..=cs.len() {
            for ws in [' ', '\n'] {
                let mut t: String = cs[..gap].iter().collect();
                t.push(ws);
                t.extend(&cs[gap..]);
                v.push(t);
            }
        }
    }
    v
}

/// Counted quantifiers with counts around 2^31, 2^32, 2^63 and 2^64 on bodies of
/// length 1, 2 and 3, alone, followed by a literal, and twice in a sequence (the
/// length arithmetic of the compile-time analyses).
pub fn extreme_count_cases() -> Vec<String> {
    let ns = ["1000", "1000000", "2147483647", "2147483648", "4294967295", "4294967296", "6148914691236517206", "9223372036854775807", "9223372036854775808", "18446744073709551615", "18446744073709551616", "99999999999999999999"];
    let bodies = ["a", "(?:ab)", "(ab)", "(?:abc)", "[ab]", "(?:a|bc)", "(?:a|b)", ".", "\\d", "(?:^|a)", "(?:$|a)", "(a|$)"];
    let mut v = vec![];
    for n in ns {
        for b in bodies {
            for q in [format!("{{{}}}", n), format!("{{{},}}", n), format!("{{0,{}}}", n), format!("{{1,{}}}", n), format!("{{{}}}?", n), format!("{{{},}}?", n), format!("{{2,{}}}?", n)] {
                v.push(format!("{}{}", b, q));
                v.push(format!("{}{}b", b, q));
                v.push(format!("^{}{}$", b, q));
                v.push(format!("c{}{}", b, q));
                v.push(format!("{}{}{}{}", b, q, b, q));
                v.push(format!("(?:{}{}){{2}}", b, q));
                v.push(format!("(?:{}{})*", b, q));
                v.push(format!("(?:{}{})+c", b, q));
                v.push(format!("({}{})?", b, q));
            }
        }
    }
    v
}

/// Deeply nested patterns: (shape, depth) -> pattern text.
pub const DEEP_SHAPES: [&str; 6] = ["((..a..))", "(?:(?:..a..))", "(a|(a|..))", "[a-[a-[..]]]", "(a(a(..)?)?)?", "((a)+)+ .."];
pub const DEEP_DEPTHS: [usize; 4] = [32, 128, 256, 100_000];

pub fn deep_pattern(shape: usize, depth: usize) -> String {
    let rep = |s: &str| s.repeat(depth);
    match shape {
        0 => format!("{}a{}", rep("("), rep(")")),
        1 => format!("{}a{}", rep("(?:"), rep(")")),
        2 => format!("{}a{}", rep("(a|"), rep(")")),
        3 => format!("{}[a]{}", rep("[a-"), rep("]")),
        4 => format!("{}a{}", rep("(a"), rep(")?")),
        _ => format!("{}a{}", rep("("), rep(")+")),
    }
}

/// Runs in the `deepcase` subprocess on a thread with a fixed stack.
pub fn deep_case_main(shape: usize, depth: usize, xsd: bool) -> String {
    let text = deep_pattern(shape, depth);
    if xsd && shape == 1 {
        return "SKIP".to_string();
    }
    let mut v = vec![];
    match imp::compile(&text, "", xsd) {
        Out::Ok(re) => {
            v.push("compile=Ok".to_string());
            for inp in ["", "a", "aa"] {
                let s = imp::surface(&re, inp, "<$0>");
                v.push(if s.any_crash() { format!("CRASH {}", s.show()) } else { "ok".to_string() });
            }
            // dropping the program recurses as well
            drop(re);
        }
        Out::Err(e) => v.push(format!("compile=Err({:?})", e)),
        o => v.push(format!("compile=CRASH {:?}", o.map(|_| ()))),
    }
    v.join(" ")
}

/// Category / block escapes whose name is any string of up to three symbols over
/// letters of one to four UTF-8 bytes, braces and blanks, bare and inside a group.
pub fn escape_name_cases() -> Vec<String> {
    let syms = ["L", "u", "I", "s", "\u{e9}", "\u{20ac}", "\u{1F600}", "{", "}", " ", "-"];
    let mut names: Vec<String> = vec![String::new()];
    let mut layer: Vec<String> = vec![String::new()];
    for _ in 0..3 {
        let mut next = vec![];
        for n in &layer {
            for s in syms {
                next.push(format!("{}{}", n, s));
            }
        }
        names.extend(next.iter().cloned());
        layer = next;
    }
    let mut v = vec![];
    for n in names {
        v.push(format!("\\p{{{}}}", n));
        v.push(format!("[\\P{{{}}}a]", n));
        v.push(format!("\\p{{{}", n));
    }
    v
}

fn flag_string(mut idx: u64) -> String {
    // all strings of length 0..=3 over FLAG_LETTERS, shortest first
    let k = FLAG_LETTERS.len() as u64;
    let mut len = 0;
    let mut block = 1;
    while idx >= block {
        idx -= block;
        block *= k;
        len += 1;
    }
    let d = crate::util::nth_token_string(&FLAG_LETTERS, len, idx);
    gen::tokens_to_string(&FLAG_LETTERS, &d)
}

struct Judge<'a> {
    id: &'static str,
    out: &'a mut ChunkOut,
}

impl<'a> Judge<'a> {
    /// Judge one observation. `allowed` = error kinds this API may return.
    fn obs<T: std::fmt::Debug>(&mut self, case: &Case, o: &Out<T>, allowed: &[EK]) {
        self.out.inc("states");
        self.out.inc("validated");
        match o {
            Out::Ok(_) => {}
            Out::Err(e) => {
                if self.id == "C05" && !allowed.contains(e) {
                    let kind = if *e == EK::Internal { "ErrInternal".to_string() } else { format!("WrongErr:{:?}", e) };
                    self.out.fail(self.id, case, &kind, &format!("Ok or one of {:?}", allowed), &o.show(), "");
                }
            }
            Out::Panic(_) => {
                if self.id == "C05" {
                    self.out.fail(self.id, case, &o.crash_kind(), "no panic", &o.show(), "");
                } else {
                    self.out.inc("inconclusive_other_property");
                }
            }
            Out::Fuel(_) | Out::TooMany(_) | Out::NotFused => {
                if self.id == "C06" {
                    self.out.fail(self.id, case, &o.crash_kind(), "terminates; finite fused iterator", &o.show(), "");
                } else {
                    self.out.inc("inconclusive_other_property");
                }
            }
        }
    }
}

fn drive(j: &mut Judge, scope: &str, text: &str, flags: &str, xsd: bool, re: &Regex, inputs: &[String], repls: &[&str], repl_inputs: usize) {
    for (n, inp) in inputs.iter().enumerate() {
        let base = Case::new(scope, text, flags).xsd(xsd).input(inp);
        j.out.pin(&|| format!("{} {:?} flags {:?} xsd {} input {:?}", scope, text, flags, xsd, inp));
        let o = imp::is_match(re, inp);
        j.obs(&base.clone().api("is_match"), &o, &[]);
        let o = imp::tokenize(re, inp);
        j.obs(&base.clone().api("tokenize"), &o, &[EK::MatchesEmptyString]);
        let o = imp::analyze(re, inp);
        j.obs(&base.clone().api("analyze"), &o, &[EK::MatchesEmptyString]);
        if n < repl_inputs {
            for r in repls {
                let o = imp::replace_all(re, inp, r);
                j.obs(
                    &base.clone().repl(r).api("replace_all"),
                    &o,
                    &[EK::MatchesEmptyString, EK::InvalidReplacementString],
                );
            }
        }
    }
}

impl Check for Crash {
    fn id(&self) -> &'static str {
        self.id
    }
    fn plan(&self, ctx: &Ctx) -> Plan {
        let s = space_for(ctx.tier);
        let what = if self.id == "C05" {
            "judged: no panic / overflow / abort, no Error::Internal, each error variant only from the API that may return it"
        } else {
            "judged: no fuel exhaustion (non-termination), tokenize <= len+1 items, analyze <= 2*len+1 items, three further next() after None are None"
        };
        Plan {
            chunks: s.chunks(),
            layer_of: s.layer_fn(),
            description: format!(
                "complete API surface (compile, is_match, tokenize+drain, analyze+drain, replace_all x 9 replacement strings) on every item of: {}; AST scopes under flags {:?} and every input of length <= 3 over the scope alphabet; token strings under both dialects and flags {:?} with 9 inputs; all flag strings of length <= 3 over {:?}. {}",
                s.describe(),
                FLAG_MENU_AST,
                FLAG_MENU,
                FLAG_LETTERS,
                what
            ),
            rule: "exhaustive enumeration; every token string (valid or not) is an item; an item is non-trivial when the compiler accepts it so that the matching APIs are actually driven".into(),
            assumptions: vec![
                "non-termination is observed as exhaustion of a deterministic step budget (tick hooks at every loop head / iterator step); a loop without a tick would be caught by the coordinator's wall-clock watchdog instead".into(),
                "overflow checks and debug assertions are on in the checked build".into(),
                "out of the bounded scope: unbounded nesting depth (parser recursion) and allocation failure on huge inputs".into(),
            ],
        }
    }
    fn run_chunk(&self, ctx: &Ctx, chunk: u64, out: &mut ChunkOut) {
        let sp = space_for(ctx.tier);
        let (seg, lo, hi) = sp.locate(chunk);
        let scope_name = space::seg_scope_name(seg);
        let mut j = Judge { id: self.id, out };
        match &seg.kind {
            SegKind::Ast { scope, .. } => {
                let sigma = gen::scope(scope).sigma;
                let light = seg.param > 0;
                let inputs = all_strings(&sigma, if light { seg.param } else { 3 });
                let menu: &[&str] = if light { &["", "m"] } else { &FLAG_MENU_AST };
                space::for_each_text(seg, lo, hi, &mut |_i, text| {
                    for flags in menu.iter().copied() {
                        j.out.pin(&|| format!("compile {:?} {:?}", text, flags));
                        let c = imp::compile(text, flags, false);
                        j.obs(&Case::new(&scope_name, text, flags).api("compile"), &c, &[EK::Syntax, EK::InvalidFlags]);
                        if let Out::Ok(re) = c {
                            j.out.inc("nontrivial");
                            drive(&mut j, &scope_name, text, flags, false, &re, &inputs, &["<$0>", "$1\\$"], usize::MAX);
                        }
                    }
                    if !light {
                        // the same text under the XSD dialect (what it accepts of it)
                        let c = imp::compile(text, "", true);
                        j.obs(&Case::new(&scope_name, text, "").xsd(true).api("compile"), &c, &[EK::Syntax, EK::InvalidFlags]);
                        if let Out::Ok(re) = c {
                            drive(&mut j, &scope_name, text, "", true, &re, &inputs, &["<$0>", "$1\\$"], usize::MAX);
                        }
                    }
                    j.out.sample(J::obj(vec![("pattern", J::s(text)), ("flags", J::s(format!("{:?}", FLAG_MENU_AST)))]));
                });
            }
            SegKind::Tok { .. } => {
                space::for_each_text(seg, lo, hi, &mut |_i, text| {
                    let mut inputs: Vec<String> = ["", "a", "ab", "aab", "b\na", "1-a", "\u{1F600}a", "a\r\n"].iter().map(|s| s.to_string()).collect();
                    inputs.push(text.to_string());
                    if scope_name.starts_with("TU") {
                        for u in ["\u{e9}\u{c9}", "\u{130}i\u{131}I\u{df}", "\u{1F600}\u{301}\u{0}", "\u{10FFFF}\u{FFFF}\u{85}\u{2028}"] {
                            inputs.push(u.to_string());
                        }
                    }
                    for xsd in [false, true] {
                        for flags in FLAG_MENU {
                            j.out.pin(&|| format!("compile {:?} {:?} xsd={}", text, flags, xsd));
                            let c = imp::compile(text, flags, xsd);
                            j.obs(
                                &Case::new(&scope_name, text, flags).xsd(xsd).api("compile"),
                                &c,
                                &[EK::Syntax, EK::InvalidFlags],
                            );
                            if let Out::Ok(re) = c {
                                j.out.inc("nontrivial");
                                drive(&mut j, &scope_name, text, flags, xsd, &re, &inputs, &REPLS, 4);
                            }
                        }
                    }
                    j.out.sample(J::obj(vec![("token_string", J::s(text)), ("dialects", J::s("xpath, xsd")), ("flags", J::s(format!("{:?}", FLAG_MENU)))]));
                });
            }
            SegKind::List { name: "whitespace under x" } => {
                let t = xws_crash_cases();
                let inputs: Vec<String> = ["", "a", "ab", "(a)", "f(x)", "]c", "a)", "[a]b", "a b", "abc"].iter().map(|s| s.to_string()).collect();
                for i in lo..hi {
                    let text = &t[i as usize];
                    for flags in ["x", "xi", "xq"] {
                        for xsd in [false, true] {
                            let c = imp::compile(text, flags, xsd);
                            j.obs(&Case::new(&scope_name, text, flags).xsd(xsd).api("compile"), &c, &[EK::Syntax, EK::InvalidFlags]);
                            if let Out::Ok(re) = c {
                                j.out.inc("nontrivial");
                                drive(&mut j, &scope_name, text, flags, xsd, &re, &inputs, &["<$0>", "$1\\$"], usize::MAX);
                            }
                        }
                    }
                    j.out.sample(J::obj(vec![("pattern_with_whitespace", J::s(text)), ("flags", J::s("x, xi, xq"))]));
                }
            }
            SegKind::List { name: "deep nesting" } => {
                // each case in its own process (a stack overflow aborts the process)
                let exe = std::env::current_exe().expect("current exe");
                for i in lo..hi {
                    let (shape, depth) = ((i as usize) / DEEP_DEPTHS.len(), DEEP_DEPTHS[(i as usize) % DEEP_DEPTHS.len()]);
                    for xsd in [false, true] {
                        j.out.inc("states");
                        let o = std::process::Command::new(&exe).arg("deepcase").arg(shape.to_string()).arg(depth.to_string()).arg(if xsd { "1" } else { "0" }).output();
                        let (status_ok, line) = match &o {
                            Ok(o) => (o.status.success(), String::from_utf8_lossy(&o.stdout).trim().to_string()),
                            Err(e) => (false, format!("spawn failed: {}", e)),
                        };
                        if line == "SKIP" {
                            continue;
                        }
                        j.out.inc("validated");
                        j.out.inc("nontrivial");
                        if j.id != "C05" {
                            continue;
                        }
                        let case = Case::new(&scope_name, &format!("{} depth {}", DEEP_SHAPES[shape], depth), "").xsd(xsd).api("all");
                        if !status_ok {
                            j.out.fail("C05", &case, "Abort", "every call returns (Ok or a classified Err)", "the process aborted (stack overflow)", "run on a thread with a 16 MiB stack in a subprocess");
                        } else if line.contains("CRASH") || line.contains("PANIC") || line.contains("Internal") {
                            j.out.fail("C05", &case, "Panic", "every call returns (Ok or a classified Err)", &line, "");
                        }
                    }
                    j.out.sample(J::obj(vec![("shape", J::s(DEEP_SHAPES[shape])), ("depth", J::i(depth))]));
                }
            }
            SegKind::List { name: "escape names" } => {
                let t = escape_name_cases();
                let inputs: Vec<String> = ["", "a", "L\u{e9}", "\u{20ac}"].iter().map(|s| s.to_string()).collect();
                for i in lo..hi {
                    let text = &t[i as usize];
                    for (flags, xsd) in [("", false), ("x", false), ("", true)] {
                        j.out.pin(&|| format!("compile {:?} {:?}", text, flags));
                        let c = imp::compile(text, flags, xsd);
                        j.obs(&Case::new(&scope_name, text, flags).xsd(xsd).api("compile"), &c, &[EK::Syntax, EK::InvalidFlags]);
                        if let Out::Ok(re) = c {
                            j.out.inc("nontrivial");
                            drive(&mut j, &scope_name, text, flags, xsd, &re, &inputs, &["<$0>"], usize::MAX);
                        }
                    }
                    j.out.sample(J::obj(vec![("pattern", J::s(text))]));
                }
            }
            SegKind::List { name: "extreme counts" } => {
                let t = extreme_count_cases();
                let inputs: Vec<String> = ["", "a", "ab", "abab", "cab", "aaaaaaaaaaaaaaaaaaaaaaaaaaaaaaaaaaaaaaaa"].iter().map(|s| s.to_string()).collect();
                for i in lo..hi {
                    let text = &t[i as usize];
                    for (flags, xsd) in [("", false), ("i", false), ("", true)] {
                        j.out.pin(&|| format!("compile {:?} {:?}", text, flags));
                        let c = imp::compile(text, flags, xsd);
                        j.obs(&Case::new(&scope_name, text, flags).xsd(xsd).api("compile"), &c, &[EK::Syntax, EK::InvalidFlags]);
                        if let Out::Ok(re) = c {
                            j.out.inc("nontrivial");
                            drive(&mut j, &scope_name, text, flags, xsd, &re, &inputs, &["<$0>", "$1\\$"], usize::MAX);
                        }
                    }
                    j.out.sample(J::obj(vec![("pattern", J::s(text))]));
                }
            }
            SegKind::List { name: "replacement strings" } => {
                // C15 leaves a crash inside replace_all to this check: patterns with 0, 1, 2, 9, 10,
                // 12 and 100 groups (one- and multi-digit group references), with and without a match
                let hundred: String = (0..100).map(|_| "(a)").collect();
                let pats: Vec<(String, String)> = vec![
                    ("a".to_string(), "-a-".to_string()),
                    ("(a)".to_string(), "-a-".to_string()),
                    ("(a)|(b)".to_string(), "ab".to_string()),
                    ("(a)(b)(c)(d)(e)(f)(g)(h)(i)".to_string(), "-abcdefghi-".to_string()),
                    ("(a)(b)(c)(d)(e)(f)(g)(h)(i)(j)".to_string(), "-abcdefghij-".to_string()),
                    ("(a)(b)(c)(d)(e)(f)(g)(h)(i)(j)(k)(l)".to_string(), "abcdefghijklabcdefghijkl".to_string()),
                    (hundred, "a".repeat(100)),
                ];
                for i in lo..hi {
                    let r = repl_item(i);
                    for (text, hit) in &pats {
                        for (flags, xsd) in [("", false), ("i", false), ("", true)] {
                            let c = imp::compile(text, flags, xsd);
                            j.obs(&Case::new(&scope_name, text, flags).xsd(xsd).api("compile"), &c, &[EK::Syntax, EK::InvalidFlags]);
                            if let Out::Ok(re) = c {
                                j.out.inc("nontrivial");
                                for inp in ["", "zz", hit.as_str()] {
                                    j.out.pin(&|| format!("{} {:?} input {:?} replacement {:?}", scope_name, text, inp, r));
                                    let o = imp::replace_all(&re, inp, &r);
                                    j.obs(&Case::new(&scope_name, text, flags).xsd(xsd).input(inp).repl(&r).api("replace_all"), &o, &[EK::MatchesEmptyString, EK::InvalidReplacementString]);
                                }
                            }
                        }
                    }
                    j.out.sample(J::obj(vec![("replacement", J::s(&r))]));
                }
            }
            SegKind::List { name: "triggers" } => {
                let t = crate::checks::c08::triggers();
                let inputs: Vec<String> = ["", "a", "aa", "ab", "aab", "abab", "1", "a1", "b\na", "aaaa", "a)]b", "-[-", "(x)", "]a[", "a\\^"].iter().map(|s| s.to_string()).collect();
                for i in lo..hi {
                    let text = &t[i as usize];
                    for flags in FLAG_MENU_AST {
                        j.out.pin(&|| format!("compile {:?} {:?}", text, flags));
                        let c = imp::compile(text, flags, false);
                        j.obs(&Case::new(&scope_name, text, flags).api("compile"), &c, &[EK::Syntax, EK::InvalidFlags]);
                        if let Out::Ok(re) = c {
                            j.out.inc("nontrivial");
                            drive(&mut j, &scope_name, text, flags, false, &re, &inputs, &["<$0>", "$1\\$"], usize::MAX);
                        }
                    }
                    j.out.sample(J::obj(vec![("trigger_pattern", J::s(text))]));
                }
            }
            SegKind::List { .. } => {
                let inputs: Vec<String> = ["", "a", "A\nb"].iter().map(|s| s.to_string()).collect();
                for i in lo..hi {
                    let flags = flag_string(i);
                    for text in ["a", "(a)|b", "[", ""] {
                        for xsd in [false, true] {
                            let c = imp::compile(text, &flags, xsd);
                            j.obs(
                                &Case::new(&scope_name, text, &flags).xsd(xsd).api("compile"),
                                &c,
                                &[EK::Syntax, EK::InvalidFlags],
                            );
                            if let Out::Ok(re) = c {
                                j.out.inc("nontrivial");
                                drive(&mut j, &scope_name, text, &flags, xsd, &re, &inputs, &["$0", "$"], usize::MAX);
                            }
                        }
                    }
                    j.out.sample(J::obj(vec![("flag_string", J::s(&flags))]));
                }
            }
        }
    }
}
