//! C17 — the XSD dialect rejects XPath extensions and agrees on the common
//! subset. Every token string and every rendered AST is compiled under both
//! dialects: acceptance under Regex::xsd against the reference recogniser in
//! XSD mode; `^` and `$` as ordinary characters against the reference
//! language; and for patterns accepted by both dialects and free of ^ and $,
//! all API observations must be identical.

use crate::core::{Case, Check, ChunkOut, Ctx, Plan, Tier};
use crate::gen;
use crate::imp::{self, Out};
use crate::refparse::{self, Dialect, Verdict};
use crate::sem::{Fl, Sem};
use crate::space::{self, SegKind, Space};
use crate::util::J;

pub struct C17;

const FLAGS2: [&str; 6] = ["s", "m", "i", "x", "q", ";"];

fn space_for(tier: Tier) -> Space {
    let mut s = Space::new();
    match tier {
        Tier::Quick => {
            s.tok("T", &gen::T_FULL, 3, 1024).tok("T0", &gen::T_CORE, 4, 1024).tok("TU", &gen::T_UNI, 3, 1024).tok("TQ", &gen::T_QUANT, 5, 1024).tok("TG", &gen::T_GROUP, 6, 1024).tok("TX", &gen::T_XCLS, 4, 1024).tok("TC", &gen::T_CLS, 5, 1024);
            s.ast("K", 4, 128).ast("Q", 3, 128).ast("CL", 3, 128).ast("G", 4, 128).ast("CAPQ", 3, 128).ast("ALT3", 5, 128);
        }
        Tier::Thorough => {
            s.tok("T", &gen::T_FULL, 4, 2048).tok("T0", &gen::T_CORE, 5, 2048).tok("TU", &gen::T_UNI, 4, 2048).tok("TQ", &gen::T_QUANT, 6, 2048).tok("TG", &gen::T_GROUP, 7, 2048).tok("TX", &gen::T_XCLS, 5, 2048).tok("TC", &gen::T_CLS, 6, 2048);
            s.ast("K", 5, 128).ast("Q", 4, 128).ast("CL", 4, 128).ast("G", 5, 128).ast("AN", 4, 128).ast("CAPQ", 4, 128).ast("ALT3", 5, 128);
        }
    }
    s.list("flagstrings", 1 + 6 + 36, 64);
    s.list("whitespace under x", crate::checks::c07::xws_cases().len() as u64, 64);
    s.list("escapes, all scalar values, both dialects", escape_list().len() as u64, 8);
    s.list("many steps, both dialects", (HEAVY.len() * HEAVY_N.len()) as u64, 1);
    s
}

/// Patterns of the common subset whose first alternative fails only after a number of steps
/// that grows like Fibonacci(n) on a run of n a's, while a later alternative matches at once:
/// both dialects must still find the match (10^4 - 10^6 engine steps; explicit step budget).
/// The last two (N = n): adjacent repeats over one character before a counted repeat that
/// needs all of it - the only split that works, all of them empty, is tried last (~ C(n+6, 6)
/// backtracking steps inside one sequence).
const HEAVY: [&str; 6] = ["(a|aa)*bc|c", "(aa|a)*b|a+c", "(a|aa)+b|ac", "((a|aa)*b)?c", "a*a*a*a*a*a{N}c", "a*a*a*a*a*a*a{N}c"];
const HEAVY_N: [usize; 6] = [8, 12, 16, 19, 22, 24];

/// Every category, block and multi-character escape in both polarities (block names from
/// the repository's own block files through the engine's table, plus PrivateUse): none of
/// them contains `^` or `$`, so both dialects must give them the same member set.
fn escape_list() -> &'static Vec<String> {
    static LIST: std::sync::OnceLock<Vec<String>> = std::sync::OnceLock::new();
    LIST.get_or_init(build_escape_list)
}

fn build_escape_list() -> Vec<String> {
    let mut v: Vec<String> = vec![];
    for c in crate::refparse::CATS {
        v.push(format!("\\p{{{}}}", c));
        v.push(format!("\\P{{{}}}", c));
    }
    for e in ["\\d", "\\D", "\\w", "\\W", "\\s", "\\S", "\\i", "\\I", "\\c", "\\C", ".", "[\\i-[:]]", "[^\\c]"] {
        v.push(e.to_string());
    }
    let names = crate::ucd::Ucd::load().map(|u| u.block_names).unwrap_or_default();
    for b in names.iter() {
        v.push(format!("\\p{{Is{}}}", b));
        v.push(format!("\\P{{Is{}}}", b));
    }
    v
}

fn flag_string(mut idx: u64) -> String {
    let k = FLAGS2.len() as u64;
    let mut len = 0;
    let mut block = 1;
    while idx >= block {
        idx -= block;
        block *= k;
        len += 1;
    }
    let d = crate::util::nth_token_string(&FLAGS2, len, idx);
    gen::tokens_to_string(&FLAGS2, &d)
}

const INPUTS: [&str; 24] = [
    "", "a", "b", "ab", "ba", "aa", "^", "$", "^a", "a$", "^a$", "1", "a\nb", "\u{3b1}", "A", "a\rb", "aB\n", "aba", "abab", "aab", "abb", "abac", "bab", "aabab",
];

impl Check for C17 {
    fn id(&self) -> &'static str {
        "C17"
    }
    fn plan(&self, ctx: &Ctx) -> Plan {
        let s = space_for(ctx.tier);
        Plan {
            chunks: s.chunks(),
            layer_of: s.layer_fn(),
            description: format!(
                "Regex::xsd vs Regex::xpath on every token string and rendered AST (flags \"\"), every flag string of length <= 2 over {:?}, and {} inputs including '^' and '$' characters: {}",
                FLAGS2,
                INPUTS.len(),
                s.describe()
            ),
            rule: "exhaustive; an item is non-trivial when the two dialects' reference verdicts differ (an XPath extension that XSD must reject) or both accept and the API surfaces are compared".into(),
            assumptions: vec![
                "XSD mode of the reference recogniser: no reluctant quantifiers, no (?:, no back-references, no \\$, ^ and $ ordinary characters; flag q invalid".into(),
                "Unclear reference verdicts are skipped".into(),
            ],
        }
    }
    fn run_chunk(&self, ctx: &Ctx, chunk: u64, out: &mut ChunkOut) {
        let sp = space_for(ctx.tier);
        let (seg, lo, hi) = sp.locate(chunk);
        let scope_name = space::seg_scope_name(seg);
        if let SegKind::List { name: "whitespace under x" } = seg.kind {
            // acceptance under Regex::xsd with flag x = XSD-mode verdict on the reference-stripped text
            let cases = crate::checks::c07::xws_cases();
            for i in lo..hi {
                let text = &cases[i as usize];
                let stripped: String = refparse::strip_x(&text.chars().collect::<Vec<_>>()).iter().collect();
                let v = refparse::parse(&stripped, Dialect::Xsd, &ctx.ucd);
                out.inc("states");
                let got = imp::compile(text, "x", true);
                if got.is_crash() {
                    out.inc("inconclusive_crash");
                    continue;
                }
                let case = Case::new(&scope_name, text, "x").xsd(true).api("compile");
                match (&v, &got) {
                    (Verdict::Unclear(_), _) => out.inc("ref_unclear_skipped"),
                    (Verdict::Valid(_), Out::Ok(_)) | (Verdict::Invalid(_), Out::Err(_)) => {
                        out.inc("validated");
                        out.inc("nontrivial");
                    }
                    (Verdict::Valid(_), _) => {
                        out.inc("validated");
                        out.fail("C17", &case, "XsdRejectsValid", &format!("Ok (stripped {:?} is a valid XSD regex)", stripped), "rejected", "flag x");
                    }
                    (Verdict::Invalid(why), _) => {
                        out.inc("validated");
                        out.fail("C17", &case, "XsdAcceptsInvalid", &format!("an error: stripped {:?}: {}", stripped, why), "Ok", "flag x");
                    }
                }
                out.sample(J::obj(vec![("pattern", J::s(text)), ("flags", J::s("x")), ("dialect", J::s("xsd"))]));
            }
            return;
        }
        if let SegKind::List { name: "many steps, both dialects" } = seg.kind {
            for i in lo..hi {
                let n = HEAVY_N[i as usize % HEAVY_N.len()];
                let text = &HEAVY[i as usize / HEAVY_N.len()].replace("{N}", &format!("{{{}}}", n));
                let inp = format!("{}c", "a".repeat(n));
                out.inc("states");
                let run = |xsd: bool| -> String {
                    match imp::compile(text, "", xsd) {
                        Out::Ok(re) => imp::with_fuel(200_000_000, || format!("is_match={} replace_all={}", imp::is_match(&re, &inp).show(), imp::replace_all(&re, &inp, "<$0>").show())),
                        o => o.map(|_| ()).show(),
                    }
                };
                let (a, b) = (run(false), run(true));
                if a.contains("NONTERMINATION") && b.contains("NONTERMINATION") {
                    out.inc("inconclusive_crash");
                    continue;
                }
                out.add("validated", 2);
                out.inc("nontrivial");
                if a != b {
                    out.fail("C17", &Case::new(&scope_name, text, "").input(&inp).api("is_match, replace_all"), "DialectsDisagree", &format!("as under Regex::xpath: {}", a), &format!("under Regex::xsd: {}", b), "the first alternative fails only after many steps");
                }
                out.sample(J::obj(vec![("pattern", J::s(text)), ("input", J::s(&inp))]));
            }
            return;
        }
        if let SegKind::List { name: "escapes, all scalar values, both dialects" } = seg.kind {
            let list = escape_list();
            let hay: String = (0u32..0x110000).filter_map(char::from_u32).collect();
            for i in lo..hi {
                let text = &list[i as usize];
                out.add("states", 2 * 1_112_064);
                let left = |xsd: bool| -> Result<String, String> {
                    match imp::compile(text, "", xsd) {
                        Out::Ok(re) => match imp::with_fuel(400_000_000, || imp::replace_all(&re, &hay, "")) {
                            Out::Ok(s) => Ok(s),
                            o => Err(o.show()),
                        },
                        Out::Err(e) => Err(format!("Err({:?})", e)),
                        o => Err(format!("{:?}", o.map(|_| ()))),
                    }
                };
                let (a, b) = (left(false), left(true));
                let case = Case::new(&scope_name, text, "").api("replace_all");
                match (&a, &b) {
                    (Ok(x), Ok(y)) => {
                        out.add("validated", 2 * 1_112_064);
                        out.inc("nontrivial");
                        if x != y {
                            let first = x.chars().zip(y.chars()).find(|(p, q)| p != q).map(|(p, q)| p.min(q)).or_else(|| x.chars().nth(y.chars().count())).or_else(|| y.chars().nth(x.chars().count()));
                            out.fail("C17", &case.clone().input(&first.map(|c| c.to_string()).unwrap_or_default()), "DialectsDisagree", "the same members under Regex::xpath and Regex::xsd", &format!("first difference at U+{:04X}", first.map(|c| c as u32).unwrap_or(0)), "every scalar value");
                        }
                    }
                    (Err(x), Err(y)) if x.starts_with("Err(") && y.starts_with("Err(") => out.inc("both_reject"),
                    (Err(x), Err(y)) if !x.starts_with("Err(") && !y.starts_with("Err(") => out.inc("inconclusive_crash"),
                    (x, y) => {
                        let sh = |r: &Result<String, String>| match r {
                            Ok(_) => "Ok".to_string(),
                            Err(e) => e.clone(),
                        };
                        out.fail("C17", &case, "DialectsDisagree", "the same outcome under Regex::xpath and Regex::xsd", &format!("xpath {} / xsd {}", sh(x), sh(y)), "every scalar value");
                    }
                }
                out.sample(J::obj(vec![("escape", J::s(text))]));
            }
            return;
        }
        if let SegKind::List { .. } = seg.kind {
            for i in lo..hi {
                let flags = flag_string(i);
                out.inc("states");
                let got = imp::compile("a", &flags, true);
                let want = match crate::checks::c07::ref_flags(&flags) {
                    None => {
                        out.inc("ref_unclear_skipped");
                        continue;
                    }
                    Some(v) => v && !flags.contains('q'),
                };
                out.inc("validated");
                out.inc("nontrivial");
                let case = Case::new(&scope_name, "a", &flags).xsd(true).api("compile");
                match (want, &got) {
                    (true, Out::Ok(_)) => {}
                    (false, Out::Err(_)) => {}
                    (_, g) if g.is_crash() => out.inc("inconclusive_crash"),
                    (true, g) => out.fail("C17", &case, "RejectsFlags", "Ok", &g.show(), ""),
                    (false, g) => out.fail("C17", &case, "AcceptsFlags", "an error (q and unknown letters are invalid in XSD)", &g.show(), ""),
                }
                // with a ';' section (g, k, K are accepted and do nothing) the dialect stays XSD
                if want {
                    for tail in [";", ";g", ";k", ";K", ";gkK"] {
                        let f = format!("{}{}", flags.split(';').next().unwrap_or(""), tail);
                        if f.contains('x') {
                            continue;
                        }
                        out.inc("states");
                        out.inc("validated");
                        let case = Case::new(&scope_name, "a+?", &f).xsd(true).api("compile");
                        match imp::compile("a+?", &f, true) {
                            Out::Err(_) => {}
                            o if o.is_crash() => out.inc("inconclusive_crash"),
                            _ => out.fail("C17", &case, "XsdAcceptsInvalid", "an error (reluctant quantifier)", "Ok", "flag string with a ';' section"),
                        }
                        if let Out::Ok(re) = imp::compile("^a$", &f, true) {
                            let got = (imp::is_match(&re, "x^a$x"), imp::is_match(&re, "a"));
                            if got != (Out::Ok(true), Out::Ok(false)) {
                                out.fail("C17", &Case::new(&scope_name, "^a$", &f).xsd(true).input("x^a$x / a").api("is_match"), "AnchorsNotLiteral", "true / false (^ and $ are ordinary characters)", &format!("{} / {}", got.0.show(), got.1.show()), "flag string with a ';' section");
                            }
                        }
                    }
                }
                out.sample(J::obj(vec![("flag_string", J::s(&flags))]));
            }
            return;
        }
        space::for_each_text(seg, lo, hi, &mut |_i, text| {
            let vx = refparse::parse(text, Dialect::Xsd, &ctx.ucd);
            let vp = refparse::parse(text, Dialect::XPath, &ctx.ucd);
            out.inc("states");
            out.pin(&|| format!("compile {:?} both dialects", text));
            let gx = imp::compile(text, "", true);
            let gp = imp::compile(text, "", false);
            if gx.is_crash() || gp.is_crash() {
                out.inc("inconclusive_crash");
                return;
            }
            let case = Case::new(&scope_name, text, "").xsd(true).api("compile");
            match (&vx, &gx) {
                (Verdict::Unclear(_), _) => {
                    out.inc("ref_unclear_skipped");
                    return;
                }
                (Verdict::Valid(_), Out::Ok(_)) => {
                    out.inc("validated");
                }
                (Verdict::Invalid(_), Out::Err(_)) => {
                    out.inc("validated");
                    if matches!(vp, Verdict::Valid(_)) {
                        out.inc("nontrivial");
                        out.inc("xpath_extension_rejected");
                    }
                    return;
                }
                (Verdict::Valid(_), g) => {
                    out.inc("validated");
                    out.fail("C17", &case, "XsdRejectsValid", "Ok (valid XSD 1.1 regex)", &g.show(), "");
                    return;
                }
                (Verdict::Invalid(why), _) => {
                    out.inc("validated");
                    out.fail("C17", &case, "XsdAcceptsInvalid", &format!("an error: {}", why), "Ok", "");
                    return;
                }
            }
            let (px, rx) = match (&vx, &gx) {
                (Verdict::Valid(p), Out::Ok(r)) => (p, r),
                _ => return,
            };
            out.shape = px.ast.shape();
            out.inc("nontrivial");
            // ^ and $ are ordinary characters: is_match against the reference language of the XSD parse
            let mut inputs: Vec<String> = INPUTS.iter().map(|s| s.to_string()).collect();
            inputs.push(text.to_string());
            // (also under flags m and s when the pattern contains ^ $ or a dot: the flags
            // must not turn ^ and $ into anchors, and s must reach the dot)
            let anchors_or_dot = text.contains('^') || text.contains('$') || text.contains('.');
            for lflags in ["", "m", "s"] {
                if px.ast.has_backref() || (!lflags.is_empty() && !anchors_or_dot) {
                    continue;
                }
                let rx_flagged;
                let rx = if lflags.is_empty() {
                    rx
                } else {
                    match imp::compile(text, lflags, true) {
                        Out::Ok(r) => {
                            rx_flagged = r;
                            &rx_flagged
                        }
                        o => {
                            if !o.is_crash() {
                                out.fail("C17", &Case::new(&scope_name, text, lflags).xsd(true).api("compile"), "XsdRejectsValid", "Ok (accepted without the flag)", &o.show(), "");
                            }
                            continue;
                        }
                    }
                };
                for inp in &inputs {
                    let chars: Vec<char> = inp.chars().collect();
                    if chars.len() > 12 {
                        continue;
                    }
                    let sem = Sem { s: &chars, f: Fl::parse(lflags), ucd: &ctx.ucd };
                    let want = sem.lang_is_match(&px.ast);
                    out.inc("states");
                    match imp::is_match(rx, inp) {
                        Out::Ok(g) => {
                            out.inc("validated");
                            if g != want {
                                out.fail(
                                    "C17",
                                    &Case::new(&scope_name, text, lflags).xsd(true).input(inp).api("is_match"),
                                    if g { "WrongTrue" } else { "WrongFalse" },
                                    &want.to_string(),
                                    &g.to_string(),
                                    "reference language of the XSD reading (^ and $ are ordinary characters)",
                                );
                            }
                        }
                        _ => out.inc("inconclusive_crash"),
                    }
                }
            }
            // common subset: identical API observations, under each flag both dialects know
            if let (Verdict::Valid(_), Out::Ok(_)) = (&vp, &gp) {
                if !text.contains('^') && !text.contains('$') {
                    for flags in ["", "s", "i", "x", "m"] {
                        let (rx2, rp2) = match (imp::compile(text, flags, true), imp::compile(text, flags, false)) {
                            (Out::Ok(a), Out::Ok(b)) => (a, b),
                            (a, b) => {
                                if !a.is_crash() && !b.is_crash() && a.ok().is_some() != b.ok().is_some() && !text.chars().any(|c| c.is_whitespace()) {
                                    out.fail("C17", &Case::new(&scope_name, text, flags).api("compile"), "DialectsDisagreeOnAcceptance", "both accept (common subset)", "one rejects", "");
                                }
                                continue;
                            }
                        };
                        for inp in &inputs {
                            let a = imp::surface(&rx2, inp, "<$0|$1|$2>");
                            let b = imp::surface(&rp2, inp, "<$0|$1|$2>");
                            out.inc("states");
                            if a.any_crash() && b.any_crash() {
                                out.inc("inconclusive_crash");
                                continue;
                            }
                            out.inc("validated");
                            if a != b {
                                out.fail(
                                    "C17",
                                    &Case::new(&scope_name, text, flags).input(inp).repl("<$0|$1|$2>").api("all"),
                                    "DialectsDisagree",
                                    &format!("xpath: {}", b.show()),
                                    &format!("xsd: {}", a.show()),
                                    "",
                                );
                            }
                        }
                    }
                }
            }
            out.sample(J::obj(vec![("pattern", J::s(text))]));
        });
    }
}
