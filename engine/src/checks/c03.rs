//! C03 — captured groups report the text captured on the selected match path.
//! Exhaustive over AST scopes with capturing groups (non-nullable patterns
//! under the strict ordered-choice clause) x inputs, plus a ladder of
//! straight-line patterns with 10-12 groups. Oracle: the capture vector of
//! the selected path of the ordered reference; analyze entries are checked
//! for well-formedness, nesting, text and absence.

use super::common::{self, Compiled};
use crate::core::{Case, Check, ChunkOut, Ctx, Plan, Tier};
use crate::imp::{self, Out};
use crate::refparse::Parsed;
use crate::sem::{Caps, Fl};
use crate::space::{self, SegKind, Space};
use crate::util::{all_strings, J};
use regexml::{AnalyzeEntry, MatchEntry};

pub struct C03;

const LADDER: [&str; 8] = [
    "(a)(b)(c)(d)(e)(f)(g)(h)(i)(j)",
    "(a)(b)(c)(d)(e)(f)(g)(h)(i)(j)(k)(l)",
    "((a)(b))((c)(d))((e)((f)(g)))(h)(i)(j)(k)",
    "(a)?(b)(c)?(d)(e)?(f)(g)?(h)(i)?(j)(k)?",
    "(a)|(b)|(c)|(d)|(e)|(f)|(g)|(h)|(i)|(j)|(k)",
    "(?:(a)|(b)|(c))+(d)(e)(f)(g)(h)(i)(j)(k)",
    "((((((((((((a))))))))))))",
    "(a(b(c(d(e(f(g(h(i(j(k)?)?)?)?)?)?)?)?)?)?)",
];
const LADDER_INPUTS: [&str; 8] = ["abcdefghijkl", "abcdefghij", "bdfhj", "abcdefghijk", "c", "abcdefghijkxa", "a", "abcdefg"];

fn space_for(tier: Tier) -> (Space, usize) {
    let mut s = Space::new();
    match tier {
        Tier::Quick => {
            s.ast("GC", 6, 64).ast("K", 5, 64).ast("U", 4, 64).ast("NEST", 7, 64).ast("CAPQ", 5, 64).ast("ALTC", 6, 64).ast("NESTN", 4, 64).ast("BR3", 5, 64).ast("ANCG", 5, 64).ast("CAPR", 4, 64).ast("OPTG", 5, 64).ast("Z", 6, 64);
            s.ast_range("GCM", 1, 5, 64, 1).ast_range("GCE", 1, 4, 64, 1).ast_range("ANCG", 1, 5, 64, 1);
            s.list("ladder", LADDER.len() as u64, 1);
            (s, 4)
        }
        Tier::Thorough => {
            s.ast("GC", 6, 64).ast("K", 5, 64).ast("U", 4, 64).ast("NEST", 7, 64).ast("CAPQ", 5, 64).ast("ALTC", 6, 64);
            s.ast("NESTN", 5, 64).ast("BR3", 5, 64).ast("ANCG", 6, 64).ast("CAPR", 4, 64).ast("OPTG", 5, 64).ast("Z", 6, 64);
            s.ast_range("GCM", 1, 5, 64, 1).ast_range("GCE", 1, 4, 64, 1).ast_range("ANCG", 1, 6, 64, 1);
            // deeper layers restricted (by the shape of the pattern, decided by the
            // reference parser) to patterns without a group inside a repetition
            s.ast_range("GC", 7, 7, 256, 2).ast_range("ALTC", 7, 7, 64, 2).ast_range("NEST", 8, 8, 64, 2).ast_range("CAPQ", 6, 6, 256, 2).ast_range("K", 6, 6, 256, 2);
            s.list("ladder", LADDER.len() as u64, 1);
            (s, 4)
        }
    }
}

const OPEN: char = '\u{1}';
const SEP: char = '\u{2}';
const CLOSE: char = '\u{3}';

fn capture_replacement(groups: usize) -> String {
    let mut r = String::new();
    r.push(OPEN);
    for g in 1..=groups {
        r.push_str(&format!("${}", g));
        r.push(SEP);
    }
    r.push(CLOSE);
    r
}

fn expected_replace(chars: &[char], scan: &[(usize, usize, Caps)], groups: usize) -> String {
    let mut want = String::new();
    let mut pos = 0;
    for (st, en, caps) in scan {
        want.extend(&chars[pos..*st]);
        want.push(OPEN);
        for g in 1..=groups {
            if let Some((a, b)) = caps[g] {
                want.extend(&chars[a..b]);
            }
            want.push(SEP);
        }
        want.push(CLOSE);
        pos = *en;
    }
    want.extend(&chars[pos..]);
    want
}

/// Flatten analyze group entries of one match into (nr, start, end, enclosing nr) in match-relative offsets.
fn flatten(v: &[MatchEntry], pos: &mut usize, enclosing: usize, out: &mut Vec<(usize, usize, usize, usize)>) {
    for e in v {
        match e {
            MatchEntry::String(s) => *pos += s.chars().count(),
            MatchEntry::Group { nr, value } => {
                let st = *pos;
                let slot = out.len();
                out.push((*nr, st, st, enclosing));
                flatten(value, pos, *nr, out);
                out[slot].2 = *pos;
            }
        }
    }
}

fn is_ancestor(parent: &[usize], anc: usize, mut g: usize) -> bool {
    if anc == 0 {
        return true;
    }
    while g != 0 {
        g = parent[g];
        if g == anc {
            return true;
        }
    }
    false
}

#[allow(clippy::too_many_arguments)]
fn judge(check_out: &mut ChunkOut, ctx: &Ctx, scope: &str, text: &str, flags: &str, parsed: &Parsed, re: &regexml::Regex, inp: &str, chars: &[char]) {
    let fl = Fl::parse(flags);
    let scan = match common::ref_scan(parsed, chars, fl, ctx) {
        Some(s) => s,
        None => {
            check_out.inc("ref_out_of_budget");
            return;
        }
    };
    check_out.inc("states");
    // --- replace_all with $N
    let repl = capture_replacement(parsed.groups);
    let case = Case::new(scope, text, flags).input(inp).repl(&repl).api("replace_all");
    match imp::replace_all(re, inp, &repl) {
        Out::Ok(got) => {
            check_out.inc("validated");
            let want = expected_replace(chars, &scan, parsed.groups);
            if got != want {
                // distinguish a span problem (C02's) from a capture problem
                let strip = |x: &str| -> String {
                    let mut o = String::new();
                    let mut inside = false;
                    for ch in x.chars() {
                        match ch {
                            OPEN => {
                                inside = true;
                                o.push(ch)
                            }
                            CLOSE => inside = false,
                            _ if inside => {}
                            _ => o.push(ch),
                        }
                    }
                    o
                };
                if strip(&got) == strip(&want) {
                    check_out.fail("C03", &case, "WrongCapture", &crate::util::vis(&want), &crate::util::vis(&got), "$N expansion, groups separated by U+0002 inside U+0001..U+0003");
                } else {
                    check_out.inc("span_differs_see_C02");
                }
            }
        }
        o if o.is_crash() => check_out.inc("inconclusive_crash"),
        _ => check_out.inc("impl_says_nullable_see_C16"),
    }
    // --- analyze
    let case = Case::new(scope, text, flags).input(inp).api("analyze");
    match imp::analyze(re, inp) {
        Out::Ok(entries) => {
            check_out.inc("validated");
            let spans = imp::spans_from_analyze(&entries);
            let want_spans: Vec<(usize, usize)> = scan.iter().map(|x| (x.0, x.1)).collect();
            if spans != want_spans {
                check_out.inc("span_differs_see_C02");
                return;
            }
            let mut mi = 0;
            for e in &entries {
                if let AnalyzeEntry::Match(v) = e {
                    let (st, en, caps) = &scan[mi];
                    mi += 1;
                    // leaves concatenate to the matched text
                    let mut t = String::new();
                    imp::entries_text(v, &mut t);
                    if t != common::substr(chars, *st, *en) {
                        check_out.fail("C03", &case, "MatchTextWrong", &common::substr(chars, *st, *en), &t, "");
                        continue;
                    }
                    let mut flat = vec![];
                    let mut pos = 0;
                    flatten(v, &mut pos, 0, &mut flat);
                    let shown = format!("{:?}", v);
                    // each group at most once, inside the match, nested under an ancestor
                    let mut seen = vec![false; parsed.groups + 1];
                    let mut structural_ok = true;
                    for (nr, a, b, enc) in &flat {
                        if *nr == 0 || *nr > parsed.groups || seen[*nr] {
                            check_out.fail("C03", &case, "GroupEntryMalformed", "each group number 1..n at most once", &shown, "");
                            structural_ok = false;
                            break;
                        }
                        seen[*nr] = true;
                        if *b > en - st || a > b {
                            check_out.fail("C03", &case, "GroupOutsideMatch", "group inside the match", &shown, "");
                            structural_ok = false;
                            break;
                        }
                        // nesting clause only where the reference captures are themselves nested
                        let ref_nested = (1..=parsed.groups).all(|g| match (caps[g], parsed.parent[g]) {
                            (Some((ga, gb)), p) if p != 0 => match caps[p] {
                                Some((pa, pb)) => pa <= ga && gb <= pb,
                                None => false,
                            },
                            _ => true,
                        });
                        if ref_nested && !is_ancestor(&parsed.parent, *enc, *nr) {
                            check_out.fail("C03", &case, "GroupNestingWrong", &format!("group {} nested inside an ancestor (parent {})", nr, parsed.parent[*nr]), &shown, "");
                            structural_ok = false;
                            break;
                        }
                    }
                    // without a group inside a repetition every group participates at most
                    // once, so a participating group lies inside the participation of every
                    // participating ancestor: its entry must sit directly inside the entry of
                    // its nearest ancestor that has one
                    if structural_ok && !parsed.ast.has_group_in_rep() {
                        for (nr, _, _, enc) in &flat {
                            if caps[*nr].is_none() {
                                continue;
                            }
                            let mut q = parsed.parent[*nr];
                            while q != 0 && !flat.iter().any(|x| x.0 == q) {
                                q = parsed.parent[q];
                            }
                            if q != 0 && caps[q].is_none() {
                                continue;
                            }
                            if *enc != q {
                                check_out.fail(
                                    "C03",
                                    &case,
                                    "GroupNestingWrong",
                                    &format!("group {} directly inside the entry of group {} (0 = the match)", nr, q),
                                    &format!("inside {} in {}", enc, shown),
                                    "nearest ancestor with an entry",
                                );
                                structural_ok = false;
                                break;
                            }
                        }
                    }
                    if !structural_ok {
                        continue;
                    }
                    for g in 1..=parsed.groups {
                        let got = flat.iter().find(|x| x.0 == g);
                        match (caps[g], got) {
                            (None, Some((_, a, b, _))) => {
                                // absent expected; a zero-length entry is tolerated only
                                // when... no: a group that did not participate must be absent
                                check_out.fail(
                                    "C03",
                                    &case,
                                    "GroupShouldBeAbsent",
                                    &format!("group {} absent (did not participate)", g),
                                    &format!("group {} present at [{},{}) in {}", g, a, b, shown),
                                    "",
                                );
                            }
                            (Some((a, b)), None) if b > a => {
                                check_out.fail(
                                    "C03",
                                    &case,
                                    "GroupMissing",
                                    &format!("group {} = {:?}", g, common::substr(chars, a, b)),
                                    &shown,
                                    "",
                                );
                            }
                            (Some((a, b)), Some((_, ga, gb, _))) if b > a => {
                                if (*ga + st, *gb + st) != (a, b) {
                                    check_out.fail(
                                        "C03",
                                        &case,
                                        "WrongCaptureAnalyze",
                                        &format!("group {} at [{},{})", g, a - st, b - st),
                                        &format!("group {} at [{},{}) in {}", g, ga, gb, shown),
                                        "",
                                    );
                                }
                            }
                            (Some(_), Some((_, ga, gb, _))) => {
                                // zero-length participation: present-and-empty accepted
                                if ga != gb {
                                    check_out.fail("C03", &case, "WrongCaptureAnalyze", &format!("group {} empty", g), &shown, "");
                                }
                            }
                            _ => {}
                        }
                    }
                }
            }
        }
        o if o.is_crash() => check_out.inc("inconclusive_crash"),
        _ => check_out.inc("impl_says_nullable_see_C16"),
    }
}

impl Check for C03 {
    fn id(&self) -> &'static str {
        "C03"
    }
    fn plan(&self, ctx: &Ctx) -> Plan {
        let (s, maxlen) = space_for(ctx.tier);
        Plan {
            chunks: s.chunks(),
            layer_of: s.layer_fn(),
            description: format!(
                "$N expansion in replace_all and Group entries of analyze for every pattern AST with >= 1 capturing group (non-nullable, strict clause) x flags \"\", \"i\", \"s\" x every input of length <= {}; plus {} ladder patterns with 10-12 groups: {}",
                maxlen,
                LADDER.len(),
                s.describe()
            ),
            rule: "exhaustive; a program is non-trivial when some group captures a non-empty text on some input".into(),
            assumptions: vec![
                "capture oracle = capture vector of the selected path of the ordered reference (last participation; captures of abandoned paths vanish)".into(),
                "restricted to patterns without a quantifier over a possibly-empty body (strict clause); zero-length participation may be present-and-empty or absent in analyze".into(),
                "the nesting clause is judged only when the reference captures are themselves nested".into(),
            ],
        }
    }
    fn run_chunk(&self, ctx: &Ctx, chunk: u64, out: &mut ChunkOut) {
        let (sp, maxlen) = space_for(ctx.tier);
        let (seg, lo, hi) = sp.locate(chunk);
        let scope_name = space::seg_scope_name(seg);
        if let SegKind::List { .. } = seg.kind {
            for i in lo..hi {
                let text = LADDER[i as usize];
                let parsed = common::ref_valid(text, ctx).expect("ladder pattern must be valid");
                out.shape = parsed.ast.shape();
                for flags in ["", "i"] {
                    if let Compiled::Ok(re) = common::compile(text, flags, false) {
                        out.inc("nontrivial");
                        for inp in LADDER_INPUTS {
                            let chars: Vec<char> = inp.chars().collect();
                            judge(out, ctx, &scope_name, text, flags, &parsed, &re, inp, &chars);
                        }
                    } else {
                        out.inc("rejected_valid");
                    }
                }
                out.sample(J::obj(vec![("pattern", J::s(text)), ("inputs", J::s(format!("{:?}", LADDER_INPUTS)))]));
            }
            return;
        }
        let sigma = match &seg.kind {
            SegKind::Ast { scope, .. } => crate::gen::scope(scope).sigma,
            _ => unreachable!(),
        };
        let inputs = all_strings(&sigma, maxlen);
        let inputs_c: Vec<Vec<char>> = inputs.iter().map(|s| s.chars().collect()).collect();
        space::for_each_text(seg, lo, hi, &mut |_i, text| {
            let parsed = match common::ref_valid(text, ctx) {
                Some(p) => p,
                None => return,
            };
            if parsed.groups == 0 || parsed.ast.has_backref() || parsed.ast.has_nullable_loop() {
                return;
            }
            if seg.param == 2 && parsed.ast.has_group_in_rep() {
                out.inc("restricted_layer_skipped");
                return;
            }
            out.shape = parsed.ast.shape();
            // layers with parameter 1 are the line-anchored families, run under flag m
            let flag_menu: &[&str] = if seg.param == 1 { &["m", "ms"] } else { &["", "i", "s"] };
            for flags in flag_menu.iter().copied() {
                let fl = Fl::parse(flags);
                if common::ref_nullable(&parsed, fl, ctx) != Some(false) {
                    out.inc("nullable_skipped");
                    continue;
                }
                let re = match common::compile(text, flags, false) {
                    Compiled::Ok(re) => re,
                    Compiled::Rejected => {
                        out.inc("rejected_valid");
                        continue;
                    }
                    Compiled::Crash => {
                        out.inc("inconclusive_crash");
                        continue;
                    }
                };
                out.inc("nontrivial");
                for (k, inp) in inputs.iter().enumerate() {
                    out.pin(&|| format!("{:?} {:?} {:?}", text, flags, inp));
                    judge(out, ctx, &scope_name, text, flags, &parsed, &re, inp, &inputs_c[k]);
                }
            }
            out.sample(J::obj(vec![("pattern", J::s(text)), ("groups", J::i(parsed.groups))]));
        });
    }
}
