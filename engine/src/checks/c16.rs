//! C16 — regexes that match the empty string are rejected up front, and only
//! those. Exhaustive over scopes (nullable and non-nullable bodies, anchors
//! only, optional groups, back-references to possibly-empty groups) x flags
//! x inputs; nullable := the reference matches "".

use super::common::{self, Compiled};
use crate::core::{Case, Check, ChunkOut, Ctx, Plan, Tier};
use crate::imp::{self, Out, EK};
use crate::sem::Fl;
use crate::space::{self, SegKind, Space};
use crate::util::{all_strings, J};

pub struct C16;

const FLAGS: [&str; 5] = ["", "m", "s", "i", "ms"];
/// literal patterns for flag q: nullable iff the literal is empty
const LITERALS: [&str; 8] = ["", "a", "a*", "(", "()", ".?", " ", "^"];
const QFLAGS: [&str; 5] = ["q", "qi", "qx", "qm", "qs"];
/// Token strings compiled under flag x: whether the regex is nullable is decided on the text
/// with its white space removed as the property words it (outside class expressions only;
/// escaped backslashes and escaped brackets beside real ones), e.g. a blank-only alternative.
const T_XNULL: [&str; 10] = ["a", "\\\\", "[a]", "[ ]", "|", " ", "(", ")", "?", "\\["];
const XFLAGS: [&str; 2] = ["x", "mx"];

fn space_for(tier: Tier) -> (Space, usize) {
    let mut s = Space::new();
    match tier {
        Tier::Quick => {
            s.ast("K", 5, 64).ast("G", 5, 64).ast("AN", 4, 64).ast("ALT", 3, 64).ast("BR", 3, 64).ast("HIST", 3, 64).ast("K0E", 3, 64).ast("K0S", 3, 64);
            s.tok("TXN", &T_XNULL, 4, 64);
            s.list("literals under q", LITERALS.len() as u64, 4);
            (s, 2)
        }
        Tier::Thorough => {
            s.ast("K", 5, 64).ast("G", 6, 64).ast("AN", 5, 64).ast("Q", 3, 64).ast("GC", 5, 64).ast("ALT", 4, 64).ast("BR", 4, 64).ast("HIST", 3, 64).ast("K0E", 4, 64).ast("K0S", 4, 64);
            s.tok("TXN", &T_XNULL, 5, 64);
            s.list("literals under q", LITERALS.len() as u64, 4);
            (s, 3)
        }
    }
}

impl Check for C16 {
    fn id(&self) -> &'static str {
        "C16"
    }
    fn plan(&self, ctx: &Ctx) -> Plan {
        let (s, maxlen) = space_for(ctx.tier);
        Plan {
            chunks: s.chunks(),
            layer_of: s.layer_fn(),
            description: format!(
                "replace_all / analyze / tokenize error behaviour of every pattern AST x flags {:?} x every input of length <= {}: {}",
                FLAGS,
                maxlen,
                s.describe()
            ),
            rule: "exhaustive; both classes (nullable / not nullable by the reference) occur and are counted; a program is non-trivial when the reference gives a definite nullability verdict".into(),
            assumptions: vec![
                "nullable := the reference matches the zero-length string (set semantics; ordered path semantics when back-references occur)".into(),
                "patterns in which a back-reference occurs together with a quantified possibly-empty body are skipped (semantics disputed)".into(),
            ],
        }
    }
    fn run_chunk(&self, ctx: &Ctx, chunk: u64, out: &mut ChunkOut) {
        let (sp, maxlen) = space_for(ctx.tier);
        let (seg, lo, hi) = sp.locate(chunk);
        let scope_name = space::seg_scope_name(seg);
        if let SegKind::List { .. } = seg.kind {
            for i in lo..hi {
                let lit = LITERALS[i as usize];
                let nullable = lit.is_empty();
                for flags in QFLAGS {
                    let re = match common::compile(lit, flags, false) {
                        Compiled::Ok(re) => re,
                        _ => {
                            out.inc("rejected_valid");
                            continue;
                        }
                    };
                    out.inc("nontrivial");
                    for inp in ["", "a", "abc", "a*(", " "] {
                        let base = Case::new(&scope_name, lit, flags).input(inp);
                        let r = imp::replace_all(&re, inp, "-");
                        let a = imp::analyze(&re, inp);
                        let t = imp::tokenize(&re, inp);
                        out.inc("states");
                        if r.is_crash() || a.is_crash() || t.is_crash() {
                            out.inc("inconclusive_crash");
                            continue;
                        }
                        out.add("validated", 3);
                        let rej = |o: bool| if nullable { o } else { !o };
                        if !rej(matches!(r, Out::Err(EK::MatchesEmptyString))) {
                            out.fail("C16", &base.clone().api("replace_all"), if nullable { "NullableNotRejected" } else { "NonNullableRejected" }, if nullable { "Err(MatchesEmptyString)" } else { "Ok" }, &r.show(), "literal under flag q");
                        }
                        if !rej(matches!(a, Out::Err(EK::MatchesEmptyString))) {
                            out.fail("C16", &base.clone().api("analyze"), if nullable { "NullableNotRejected" } else { "NonNullableRejected" }, if nullable { "Err(MatchesEmptyString)" } else { "Ok" }, &a.show(), "literal under flag q");
                        }
                        if inp.is_empty() {
                            if t != Out::Ok(vec![]) {
                                out.fail("C16", &base.clone().api("tokenize"), "TokenizeEmptyInput", "Ok([])", &t.show(), "");
                            }
                        } else if !rej(matches!(t, Out::Err(EK::MatchesEmptyString))) {
                            out.fail("C16", &base.clone().api("tokenize"), if nullable { "NullableNotRejected" } else { "NonNullableRejected" }, if nullable { "Err(MatchesEmptyString)" } else { "Ok" }, &t.show(), "literal under flag q");
                        }
                    }
                }
                out.sample(J::obj(vec![("literal", J::s(lit)), ("flags", J::s(format!("{:?}", QFLAGS)))]));
            }
            return;
        }
        let under_x = matches!(seg.kind, SegKind::Tok { .. });
        let sigma = match &seg.kind {
            SegKind::Ast { scope, .. } => crate::gen::scope(scope).sigma,
            _ => vec!['a', ' ', '\\'],
        };
        let inputs = all_strings(&sigma, maxlen.min(if under_x { 2 } else { maxlen }));
        space::for_each_text(seg, lo, hi, &mut |_i, text| {
            // under flag x the reference reads the text with its white space removed
            let ref_text: String = if under_x { crate::refparse::strip_x(&text.chars().collect::<Vec<char>>()).into_iter().collect() } else { text.to_string() };
            let parsed = match common::ref_valid(&ref_text, ctx) {
                Some(p) => p,
                None => return,
            };
            if parsed.ast.backref_in_disputed_position() {
                out.inc("disputed_skipped");
                return;
            }
            out.shape = parsed.ast.shape();
            let menu: &[&str] = if under_x { &XFLAGS } else { &FLAGS };
            for flags in menu.iter().copied() {
                let fl = Fl::parse(flags);
                let nullable = match common::ref_nullable(&parsed, fl, ctx) {
                    Some(n) => n,
                    None => {
                        out.inc("ref_out_of_budget");
                        continue;
                    }
                };
                let re = match common::compile(text, flags, false) {
                    Compiled::Ok(re) => re,
                    Compiled::Rejected => {
                        out.inc("rejected_valid");
                        continue;
                    }
                    Compiled::Crash => {
                        out.inc("inconclusive_crash");
                        continue;
                    }
                };
                out.inc("nontrivial");
                out.inc(if nullable { "ref_nullable" } else { "ref_not_nullable" });
                for inp in &inputs {
                    out.pin(&|| format!("{:?} {:?} {:?}", text, flags, inp));
                    let base = Case::new(&scope_name, text, flags).input(inp);
                    let want = if nullable { "Err(MatchesEmptyString)" } else { "Ok" };
                    // replace_all
                    out.inc("states");
                    let r = imp::replace_all(&re, inp, "<$0>");
                    let a = imp::analyze(&re, inp);
                    let t = imp::tokenize(&re, inp);
                    let judge_err = |api: &str, is_err: bool, is_ok: bool, shown: String, out: &mut ChunkOut| {
                        out.inc("validated");
                        if nullable && !is_err {
                            out.fail("C16", &base.clone().api(api), "NullableNotRejected", want, &shown, "");
                        } else if !nullable && !is_ok {
                            out.fail("C16", &base.clone().api(api), "NonNullableRejected", want, &shown, "");
                        }
                    };
                    if r.is_crash() || a.is_crash() || t.is_crash() {
                        out.inc("inconclusive_crash");
                        continue;
                    }
                    judge_err("replace_all", matches!(r, Out::Err(EK::MatchesEmptyString)), r.ok().is_some(), r.show(), out);
                    judge_err("analyze", matches!(a, Out::Err(EK::MatchesEmptyString)), a.ok().is_some(), a.show(), out);
                    // a regex that matches the empty string is rejected as such whatever the
                    // replacement string looks like
                    if nullable {
                        for bad in ["$", "\\", "[$]"] {
                            let rb = imp::replace_all(&re, inp, bad);
                            out.inc("validated");
                            if !rb.is_crash() && !matches!(rb, Out::Err(EK::MatchesEmptyString)) {
                                out.fail("C16", &base.clone().repl(bad).api("replace_all"), "NullableNotRejected", want, &rb.show(), "malformed replacement string");
                            }
                        }
                    }
                    if inp.is_empty() {
                        out.inc("validated");
                        if t != Out::Ok(vec![]) {
                            out.fail("C16", &base.clone().api("tokenize"), "TokenizeEmptyInput", "Ok([])", &t.show(), "");
                        }
                    } else {
                        judge_err("tokenize", matches!(t, Out::Err(EK::MatchesEmptyString)), t.ok().is_some(), t.show(), out);
                    }
                    // no zero-length match is reported under Ok
                    if let Out::Ok(an) = &a {
                        for e in an {
                            if let regexml::AnalyzeEntry::Match(_) = e {
                                if imp::entry_text(e).is_empty() {
                                    out.fail("C16", &base.clone().api("analyze"), "ZeroLengthMatchReported", "no zero-length match", &a.show(), "");
                                    break;
                                }
                            }
                        }
                    }
                    if let Out::Ok(sp) = imp::spans_from_replace(&re, inp) {
                        if sp.iter().any(|(a, b)| a == b) {
                            out.fail("C16", &base.clone().api("replace_all"), "ZeroLengthMatchReported", "no zero-length match", &format!("{:?}", sp), "");
                        }
                    }
                }
            }
            out.sample(J::obj(vec![("pattern", J::s(text))]));
        });
    }
}
