//! C10 — category, block and name-character escapes match the Unicode / XML
//! data. A complete finite check: every escape (36 category names x \p \P,
//! every block name of the repository's Blocks.txt / CompatBlocks.txt plus
//! PrivateUse x \p \P, \d \w \s \i \c and complements) against every Unicode
//! scalar value, observed through one replace_all over U+0000..U+10FFFF per
//! escape. Oracles: structural (partition, unions, complements, definitions)
//! and data (General_Category witness, XML name productions, block ranges).

use crate::core::{Case, Check, ChunkOut, Ctx, Plan, Tier};
use crate::imp::{self, Out, EK};
use crate::refparse::CATS;
use crate::space::{SegKind, Space};
use crate::ucd::Ucd;
use crate::util::J;

pub struct C10;

const N: usize = 0x110000;

/// Member bitmap of a single-escape pattern over all scalar values.
fn members(pattern: &str, hay: &str) -> Result<Vec<bool>, String> {
    let re = match imp::compile(pattern, "", false) {
        Out::Ok(r) => r,
        Out::Err(e) => return Err(format!("Err({:?})", e)),
        o => return Err(format!("{:?}", o.map(|_| ()))),
    };
    let got = imp::with_fuel(400_000_000, || imp::replace_all(&re, hay, ""));
    let non = match got {
        Out::Ok(s) => s,
        o => return Err(o.show()),
    };
    let mut v = vec![false; N];
    let mut nm = non.chars().peekable();
    for c in hay.chars() {
        if nm.peek() == Some(&c) {
            nm.next();
        } else {
            v[c as usize] = true;
        }
    }
    Ok(v)
}

fn is_scalar(c: usize) -> bool {
    !(0xD800..=0xDFFF).contains(&c)
}

fn first_diff(a: &dyn Fn(usize) -> bool, b: &dyn Fn(usize) -> bool, skip: &dyn Fn(usize) -> bool) -> Option<usize> {
    (0..N).find(|&c| is_scalar(c) && !skip(c) && a(c) != b(c))
}

fn space_for(tier: Tier, ucd: &Ucd) -> Space {
    let mut s = Space::new();
    // one-letter groups with their members, the partition, the simple escapes
    s.list("category groups", 7, 1);
    s.list("partition and complements", 1, 1);
    s.list("simple escapes", 5, 1);
    let nb = ucd.block_names.len() as u64;
    match tier {
        Tier::Quick => {
            s.list("blocks (first 40 against all scalars)", 40.min(nb), 4);
            s.list("blocks (boundaries)", nb, 16);
        }
        Tier::Thorough => {
            s.list("blocks (all scalars)", nb, 4);
            s.list("blocks (boundaries)", nb, 16);
        }
    }
    s.list("unknown names", nb + CATS.len() as u64, 64);
    s.list("polarity pairs", CATS.len() as u64 + 5 + 12, 8);
    // every one- and two-letter name (thorough: three-letter too): accepted iff it is a category
    s.list(
        "short names",
        match tier {
            Tier::Quick => 52 + 52 * 52,
            Tier::Thorough => 52 + 52 * 52 + 52 * 52 * 52,
        },
        512,
    );
    s
}

const LETTERS: &[u8; 52] = b"ABCDEFGHIJKLMNOPQRSTUVWXYZabcdefghijklmnopqrstuvwxyz";

fn short_name(i: u64) -> String {
    let l = |k: u64| LETTERS[k as usize] as char;
    if i < 52 {
        format!("{}", l(i))
    } else if i < 52 + 52 * 52 {
        let j = i - 52;
        format!("{}{}", l(j / 52), l(j % 52))
    } else {
        let j = i - 52 - 52 * 52;
        format!("{}{}{}", l(j / (52 * 52)), l(j / 52 % 52), l(j % 52))
    }
}

const GROUPS: [char; 7] = ['L', 'M', 'N', 'P', 'Z', 'S', 'C'];

impl Check for C10 {
    fn id(&self) -> &'static str {
        "C10"
    }
    fn plan(&self, ctx: &Ctx) -> Plan {
        let s = space_for(ctx.tier, &ctx.ucd);
        Plan {
            chunks: s.chunks(),
            layer_of: s.layer_fn(),
            description: format!(
                "every escape x every Unicode scalar value (1,112,064), membership observed through replace_all over the whole scalar range: {} category names x {{\\p,\\P}}, {} block names x {{\\p,\\P}}, \\d \\w \\s \\i \\c and complements; unknown / near-miss names must be rejected: {}",
                CATS.len(),
                ctx.ucd.block_names.len(),
                s.describe()
            ),
            rule: "complete finite enumeration of the escapes; one state = one (escape, scalar value) membership; every escape is non-trivial (non-empty proper subset)".into(),
            assumptions: vec![
                "data oracle for General_Category: committed witness generated from CPython unicodedata (Unicode 14.0); a code point unassigned (Cn) in the witness may have any category in regexml's newer Unicode data and is only checked structurally".into(),
                "block ranges and names come from the repository's own Blocks.txt / CompatBlocks.txt (name with spaces and underscores removed), PrivateUse per XSD 1.1 G.4.2.3".into(),
                "\\i and \\c against the NameStartChar / NameChar productions of XML 1.0 5th edition transcribed in engine/src/ucd.rs".into(),
            ],
        }
    }
    fn run_chunk(&self, ctx: &Ctx, chunk: u64, out: &mut ChunkOut) {
        let sp = space_for(ctx.tier, &ctx.ucd);
        let (seg, lo, hi) = sp.locate(chunk);
        let lname = match &seg.kind {
            SegKind::List { name } => *name,
            _ => unreachable!(),
        };
        let ucd = &ctx.ucd;
        let hay: String = (0u32..0x110000).filter_map(char::from_u32).collect();
        let witness_cn = |c: usize| ucd.category(c as u32) == *b"Cn";
        let mut get = |out: &mut ChunkOut, pat: &str| -> Option<Vec<bool>> {
            out.pin(&|| format!("all scalars {:?}", pat));
            match members(pat, &hay) {
                Ok(v) => {
                    out.add("states", 1_112_064);
                    out.add("validated", 1_112_064);
                    out.inc("nontrivial");
                    Some(v)
                }
                Err(e) => {
                    if e.contains("PANIC") || e.contains("NONTERMINATION") {
                        out.inc("inconclusive_crash");
                    } else {
                        out.fail("C10", &Case::new("ESC", pat, "").api("compile"), "EscapeRejected", "Ok", &e, "");
                    }
                    None
                }
            }
        };
        let fail_at = |out: &mut ChunkOut, pat: &str, c: usize, kind: &str, want: &str, got: &str, note: &str| {
            let inp = char::from_u32(c as u32).map(|x| x.to_string()).unwrap_or_default();
            out.fail("C10", &Case::new("ESC", pat, "").input(&inp).api("replace_all"), kind, want, got, &format!("{} (first disagreement at U+{:04X})", note, c));
        };
        match lname {
            "short names" => {
                for i in lo..hi {
                    let name = short_name(i);
                    let valid = CATS.contains(&name.as_str());
                    for (k, xsd) in [("p", false), ("P", false), ("p", true)] {
                        for pat in [format!("\\{}{{{}}}", k, name), format!("[\\{}{{{}}}]", k, name), format!("\\{}{{Is{}}}", k, name)] {
                            // Is<name> is a block lookup (Lao, Mro, Vai, NKo are blocks)
                            let want_ok = if pat.contains("{Is") { ucd.known_block(&name) } else { valid };
                            out.inc("states");
                            out.inc("validated");
                            match imp::compile(&pat, "", xsd) {
                                Out::Ok(_) if want_ok => out.inc("nontrivial"),
                                Out::Err(EK::Syntax) if !want_ok => {}
                                o if o.is_crash() => out.inc("inconclusive_crash"),
                                o => out.fail(
                                    "C10",
                                    &Case::new("NAME", &pat, "").xsd(xsd).api("compile"),
                                    if want_ok { "CategoryRejected" } else { "UnknownNameAccepted" },
                                    if want_ok { "Ok" } else { "Err(Syntax)" },
                                    &format!("{:?}", o.map(|_| ())),
                                    "a bare name is accepted iff it is one of the 37 category names, Is<name> iff <name> is a block",
                                ),
                            }
                        }
                    }
                }
                out.sample(J::obj(vec![("short_names", J::s(format!("{} .. {}", short_name(lo), short_name(hi - 1))))]));
            }
            "category groups" => {
                for gi in lo..hi {
                    let g = GROUPS[gi as usize];
                    let gpat = format!("\\p{{{}}}", g);
                    let gset = match get(out, &gpat) {
                        Some(v) => v,
                        None => continue,
                    };
                    let mut union = vec![false; N];
                    for cat in CATS.iter().filter(|c| c.len() == 2 && c.starts_with(g)) {
                        let pat = format!("\\p{{{}}}", cat);
                        let set = match get(out, &pat) {
                            Some(v) => v,
                            None => continue,
                        };
                        // data oracle
                        if let Some(c) = first_diff(&|c| set[c], &|c| ucd.in_category(cat, c as u32), &witness_cn) {
                            fail_at(out, &pat, c, "CategoryDataWrong", &ucd.in_category(cat, c as u32).to_string(), &set[c].to_string(), "General_Category witness");
                        }
                        // complement
                        let cpat = format!("\\P{{{}}}", cat);
                        if let Some(cset) = get(out, &cpat) {
                            if let Some(c) = first_diff(&|c| cset[c], &|c| !set[c], &|_| false) {
                                fail_at(out, &cpat, c, "ComplementWrong", &(!set[c]).to_string(), &cset[c].to_string(), "\\P must be the exact complement of \\p");
                            }
                        }
                        for c in 0..N {
                            if set[c] {
                                union[c] = true;
                            }
                        }
                        out.sample(J::obj(vec![("escape", J::s(&pat)), ("against", J::s("all 1,112,064 scalar values"))]));
                    }
                    // Cs is excluded from the character abstraction; group C = Cc Cf Co Cn over scalar values
                    if let Some(c) = first_diff(&|c| gset[c], &|c| union[c], &|_| false) {
                        fail_at(out, &gpat, c, "GroupNotUnionOfMembers", &union[c].to_string(), &gset[c].to_string(), "a one-letter group is the union of its two-letter members");
                    }
                    let cpat = format!("\\P{{{}}}", g);
                    if let Some(cset) = get(out, &cpat) {
                        if let Some(c) = first_diff(&|c| cset[c], &|c| !gset[c], &|_| false) {
                            fail_at(out, &cpat, c, "ComplementWrong", &(!gset[c]).to_string(), &cset[c].to_string(), "\\P must be the exact complement of \\p");
                        }
                    }
                }
            }
            "partition and complements" => {
                // every scalar value lies in exactly one two-letter category
                let mut count = vec![0u8; N];
                for cat in CATS.iter().filter(|c| c.len() == 2) {
                    if let Some(set) = get(out, &format!("\\p{{{}}}", cat)) {
                        for c in 0..N {
                            if set[c] {
                                count[c] += 1;
                            }
                        }
                    }
                }
                if let Some(c) = (0..N).find(|&c| is_scalar(c) && count[c] != 1) {
                    fail_at(out, "\\p{two-letter categories}", c, "NotAPartition", "exactly one two-letter category", &format!("{} categories", count[c]), "the two-letter categories partition the scalar values");
                }
                out.sample(J::obj(vec![("check", J::s("29 two-letter categories partition all scalar values"))]));
            }
            "simple escapes" => {
                for i in lo..hi {
                    let (pat, cpat): (&str, &str) = [("\\d", "\\D"), ("\\w", "\\W"), ("\\s", "\\S"), ("\\i", "\\I"), ("\\c", "\\C")][i as usize];
                    let set = match get(out, pat) {
                        Some(v) => v,
                        None => continue,
                    };
                    if let Some(cset) = get(out, cpat) {
                        if let Some(c) = first_diff(&|c| cset[c], &|c| !set[c], &|_| false) {
                            fail_at(out, cpat, c, "ComplementWrong", &(!set[c]).to_string(), &cset[c].to_string(), "upper-case escape must be the exact complement");
                        }
                    }
                    match pat {
                        "\\d" => {
                            if let Some(nd) = get(out, "\\p{Nd}") {
                                if let Some(c) = first_diff(&|c| set[c], &|c| nd[c], &|_| false) {
                                    fail_at(out, pat, c, "DefinitionWrong", &nd[c].to_string(), &set[c].to_string(), "\\d = \\p{Nd}");
                                }
                            }
                            if let Some(c) = first_diff(&|c| set[c], &|c| ucd.in_category("Nd", c as u32), &witness_cn) {
                                fail_at(out, pat, c, "CategoryDataWrong", "", &set[c].to_string(), "Nd per witness");
                            }
                        }
                        "\\w" => {
                            let (p, z, cc) = (get(out, "\\p{P}"), get(out, "\\p{Z}"), get(out, "\\p{C}"));
                            if let (Some(p), Some(z), Some(cc)) = (p, z, cc) {
                                if let Some(c) = first_diff(&|c| set[c], &|c| !(p[c] || z[c] || cc[c]), &|_| false) {
                                    fail_at(out, pat, c, "DefinitionWrong", &(!(p[c] || z[c] || cc[c])).to_string(), &set[c].to_string(), "\\w = everything outside P, Z and C");
                                }
                            }
                        }
                        "\\s" => {
                            if let Some(c) = first_diff(&|c| set[c], &|c| matches!(c, 0x20 | 0x9 | 0xA | 0xD), &|_| false) {
                                fail_at(out, pat, c, "DefinitionWrong", "", &set[c].to_string(), "\\s = {space, tab, LF, CR}");
                            }
                        }
                        "\\i" => {
                            if let Some(c) = first_diff(&|c| set[c], &|c| Ucd::is_name_start(c as u32), &|_| false) {
                                fail_at(out, pat, c, "DefinitionWrong", &Ucd::is_name_start(c as u32).to_string(), &set[c].to_string(), "\\i = XML NameStartChar");
                            }
                        }
                        _ => {
                            if let Some(c) = first_diff(&|c| set[c], &|c| Ucd::is_name_char(c as u32), &|_| false) {
                                fail_at(out, pat, c, "DefinitionWrong", &Ucd::is_name_char(c as u32).to_string(), &set[c].to_string(), "\\c = XML NameChar");
                            }
                        }
                    }
                    out.sample(J::obj(vec![("escape", J::s(pat)), ("against", J::s("all 1,112,064 scalar values"))]));
                }
            }
            n if n.starts_with("blocks (boundaries)") => {
                for i in lo..hi {
                    let name = &ucd.block_names[i as usize];
                    let ranges = &ucd.blocks[name];
                    let pat = format!("^\\p{{Is{}}}$", name);
                    let cpat = format!("^\\P{{Is{}}}$", name);
                    let (re, cre) = match (imp::compile(&pat, "", false), imp::compile(&cpat, "", false)) {
                        (Out::Ok(a), Out::Ok(b)) => (a, b),
                        _ => {
                            out.fail("C10", &Case::new("BLK", &pat, "").api("compile"), "EscapeRejected", "Ok", "rejected", "block listed in Blocks.txt");
                            continue;
                        }
                    };
                    out.inc("nontrivial");
                    let mut pts = vec![0u32, 0x10FFFF];
                    for (a, b) in ranges {
                        pts.extend([a.saturating_sub(1), *a, a + 1, b.saturating_sub(1), *b, b + 1]);
                    }
                    for p in pts {
                        if let Some(ch) = char::from_u32(p) {
                            let want = ranges.iter().any(|(a, b)| *a <= p && p <= *b);
                            out.inc("states");
                            out.inc("validated");
                            let s = ch.to_string();
                            let g = imp::is_match(&re, &s);
                            let cg = imp::is_match(&cre, &s);
                            if g != Out::Ok(want) || cg != Out::Ok(!want) {
                                out.fail("C10", &Case::new("BLK", &pat, "").input(&s).api("is_match"), "BlockRangeWrong", &want.to_string(), &format!("\\p: {} \\P: {}", g.show(), cg.show()), &format!("U+{:04X} vs block range {:X?}", p, ranges));
                            }
                        }
                    }
                }
            }
            n if n.starts_with("blocks") => {
                for i in lo..hi {
                    let name = &ucd.block_names[i as usize];
                    let ranges = &ucd.blocks[name];
                    let pat = format!("\\p{{Is{}}}", name);
                    if let Some(set) = get(out, &pat) {
                        let inr = |c: usize| ranges.iter().any(|(a, b)| *a as usize <= c && c <= *b as usize);
                        if let Some(c) = first_diff(&|c| set[c], &inr, &|_| false) {
                            fail_at(out, &pat, c, "BlockRangeWrong", &inr(c).to_string(), &set[c].to_string(), &format!("block range {:X?}", ranges));
                        }
                        let cpat = format!("\\P{{Is{}}}", name);
                        if let Some(cset) = get(out, &cpat) {
                            if let Some(c) = first_diff(&|c| cset[c], &|c| !set[c], &|_| false) {
                                fail_at(out, &cpat, c, "ComplementWrong", &(!set[c]).to_string(), &cset[c].to_string(), "\\P must be the exact complement of \\p");
                            }
                        }
                    }
                    out.sample(J::obj(vec![("escape", J::s(&pat)), ("block_range", J::s(format!("{:X?}", ranges)))]));
                }
            }
            "polarity pairs" => {
                // both polarities of one escape in one pattern (and inside one class)
                for i in lo..hi {
                    let (p, n): (String, String) = if (i as usize) < CATS.len() {
                        let c = CATS[i as usize];
                        (format!("\\p{{{}}}", c), format!("\\P{{{}}}", c))
                    } else if (i as usize) < CATS.len() + 5 {
                        let e = ["d", "w", "s", "i", "c"][i as usize - CATS.len()];
                        (format!("\\{}", e), format!("\\{}", e.to_uppercase()))
                    } else {
                        let b = &ucd.block_names[(i as usize - CATS.len() - 5) * 7 % ucd.block_names.len()];
                        (format!("\\p{{Is{}}}", b), format!("\\P{{Is{}}}", b))
                    };
                    // find a member and a non-member among a small candidate list
                    let cands: Vec<char> = "aA1 _-$+(\u{e9}\u{3b1}\u{391}\u{660}\u{2028}\u{7f}\u{300}\u{2160}\u{4e2d}\u{e000}\u{378}\u{ad}\u{1c5}\u{2b0}\u{20dd}\u{903}\u{b2}\u{203f}\u{ab}\u{bb}\u{2029}\u{5e}\u{a6}".chars().chain(ucd.block_names.iter().filter_map(|b| ucd.blocks[b].first().and_then(|r| char::from_u32(r.0)))).collect();
                    let single = |pat: &str, c: char| -> Option<bool> {
                        match imp::compile(&format!("^{}$", pat), "", false) {
                            Out::Ok(re) => imp::is_match(&re, &c.to_string()).ok().copied(),
                            _ => None,
                        }
                    };
                    let member = cands.iter().copied().find(|c| single(&p, *c) == Some(true));
                    let non = cands.iter().copied().find(|c| single(&p, *c) == Some(false));
                    let (m, x) = match (member, non) {
                        (Some(m), Some(x)) => (m, x),
                        _ => {
                            out.inc("no_witness_pair");
                            continue;
                        }
                    };
                    let mut cases: Vec<(String, String, bool)> = vec![
                        (format!("^{}{}$", p, n), format!("{}{}", m, x), true),
                        (format!("^{}{}$", p, n), format!("{}{}", x, m), false),
                        (format!("^{}{}$", n, p), format!("{}{}", x, m), true),
                        (format!("^{}{}$", n, p), format!("{}{}", m, x), false),
                        (format!("^[{}{}]$", p, n), m.to_string(), true),
                        (format!("^[{}{}]$", n, p), x.to_string(), true),
                        (format!("^[{}-[{}]]$", p, n), m.to_string(), true),
                        (format!("^[{}-[{}]]$", p, n), x.to_string(), false),
                        (format!("^[{}-[{}]]$", n, p), x.to_string(), true),
                        (format!("^{}+{}+{}+$", p, n, p), format!("{}{}{}", m, x, m), true),
                    ];
                    // nested subtraction: A minus (B minus C)
                    for (q, r) in [("\\d", "5"), ("\\p{Ll}", "\\p{IsBasicLatin}"), ("\\w", "a-f")] {
                        for c in [m, x, '5', '4', 'a', 'g', '\u{e9}', 'A', ' '] {
                            if let (Some(in_p), Some(in_q), Some(in_r)) = (single(&p, c), single(q, c), single(&format!("[{}]", r), c)) {
                                cases.push((format!("^[{}-[{}-[{}]]]$", p, q, r), c.to_string(), in_p && !(in_q && !in_r)));
                            }
                        }
                    }
                    // a negated group with a subtraction: (not A) minus B
                    for q in ["\\p{Lu}", "\\d", "\\p{IsBasicLatin}", "\\s"] {
                        for c in [m, x, 'A', '1', ' ', 'a', '\u{e9}', '\u{10FFFF}'] {
                            if let (Some(in_p), Some(in_q)) = (single(&p, c), single(q, c)) {
                                cases.push((format!("^[^{}-[{}]]$", p, q), c.to_string(), !in_p && !in_q));
                                cases.push((format!("^[^a{}-[{}b]]$", p, q), c.to_string(), !(in_p || c == 'a') && !(in_q || c == 'b')));
                            }
                        }
                    }
                    // the escape under a quantifier before another escape that shares members with it
                    for q in ["\\d", "\\p{L}", "\\w", "\\p{Lo}", "\\p{Nd}", "\\p{Lu}"] {
                        if let Some(c) = cands.iter().copied().chain((0xe00u32..0xe80).chain(0x5d0..0x5f0).chain(0x370..0x400).filter_map(char::from_u32)).find(|c| single(&p, *c) == Some(true) && single(q, *c) == Some(true)) {
                            cases.push((format!("^{}+{}$", p, q), format!("{}{}", c, c), true));
                            cases.push((format!("^{}*{}$", p, q), c.to_string(), true));
                            cases.push((format!("{}{{1,2}}{}", p, q), format!("{}{}", c, c), true));
                        }
                    }
                    // two complemented escapes in one group: the union of the two complements
                    for q in ["\\P{Lu}", "\\P{Nd}", "\\D", "\\S", "\\W", "\\P{IsBasicLatin}"] {
                        if q == n {
                            continue;
                        }
                        for c in [m, x, 'A', '1', ' ', '_', 'a', '\u{e9}', '\u{10FFFF}'] {
                            if let (Some(in_n), Some(in_q)) = (single(&n, c), single(q, c)) {
                                cases.push((format!("^[{}{}]$", n, q), c.to_string(), in_n || in_q));
                                cases.push((format!("^[{}{}]$", q, n), c.to_string(), in_n || in_q));
                                cases.push((format!("^[^{}{}]$", n, q), c.to_string(), !(in_n || in_q)));
                            }
                        }
                    }
                    // the escape as a member of a bracket group under flag i: class escapes
                    // are unaffected by the flag, only the literal member is case-blind
                    let mut icases: Vec<(String, String, bool)> = vec![];
                    for c in [m, x, crate::ucd::swap_case(m), crate::ucd::swap_case(x), '_', 'q', 'Q'] {
                        let in_p = single(&p, c);
                        if let Some(in_p) = in_p {
                            icases.push((format!("^[{}_q]$", p), c.to_string(), in_p || c == '_' || c == 'q' || c == 'Q'));
                            icases.push((format!("^[^{}_q]$", p), c.to_string(), !(in_p || c == '_' || c == 'q' || c == 'Q')));
                        }
                    }
                    for (pat, inp, want) in icases {
                        out.inc("states");
                        out.inc("validated");
                        let got = match imp::compile(&pat, "i", false) {
                            Out::Ok(re) => imp::is_match(&re, &inp),
                            o => o.map(|_| false),
                        };
                        if got != Out::Ok(want) {
                            out.fail("C10", &Case::new("PAIR", &pat, "i").input(&inp).api("is_match"), "EscapeInGroupUnderI", &want.to_string(), &got.show(), "class escapes are unaffected by flag i; membership taken from the single-escape observations");
                        }
                    }
                    for (pat, inp, want) in cases {
                        out.inc("states");
                        out.inc("validated");
                        out.inc("nontrivial");
                        let got = match imp::compile(&pat, "", false) {
                            Out::Ok(re) => imp::is_match(&re, &inp),
                            o => o.map(|_| false),
                        };
                        if got != Out::Ok(want) {
                            out.fail("C10", &Case::new("PAIR", &pat, "").input(&inp).api("is_match"), "PolarityPairWrong", &want.to_string(), &got.show(), "membership taken from the single-escape observations");
                        }
                    }
                }
                out.sample(J::obj(vec![("polarity_pairs", J::s("^\\p{X}\\P{X}$, ^[\\p{X}-[\\P{X}]]$ … with a member and a non-member of X"))]));
            }
            _ => {
                // unknown / near-miss names must be rejected with Syntax
                let nb = ucd.block_names.len() as u64;
                for i in lo..hi {
                    let mut cands: Vec<String> = vec![];
                    if i < nb {
                        let name = &ucd.block_names[i as usize];
                        cands.push(format!("Is{}", name.to_lowercase()));
                        cands.push(format!("Is{}", &name[..name.len() - 1]));
                        cands.push(format!("Is{}x", name));
                        cands.push(format!("Is {}", name));
                        cands.push(format!("is{}", name));
                        cands.push(name.clone());
                        // a separator at every position of the name (no normalisation of the name)
                        let cs: Vec<char> = name.chars().collect();
                        for pos in 0..=cs.len() {
                            for sep in ['_', ' ', '-', '\t'] {
                                let mut t: String = cs[..pos].iter().collect();
                                t.push(sep);
                                t.extend(&cs[pos..]);
                                cands.push(format!("Is{}", t));
                            }
                        }
                        cands.retain(|c| !(c.starts_with("Is") && ucd.known_block(&c[2..])) && !CATS.contains(&c.as_str()));
                    } else {
                        let cat = CATS[(i - nb) as usize];
                        cands.push(cat.to_lowercase());
                        cands.push(cat.to_uppercase());
                        cands.push(format!("{}x", cat));
                        cands.push(format!(" {}", cat));
                        cands.push("Cs".to_string());
                        for sep in ['_', ' ', '-', '\t'] {
                            cands.push(format!("{}{}", cat, sep));
                            if cat.len() == 2 {
                                cands.push(format!("{}{}{}", &cat[..1], sep, &cat[1..]));
                            }
                        }
                        cands.push("".to_string());
                        cands.retain(|c| !CATS.contains(&c.as_str()));
                    }
                    for c in cands {
                        for (k, flags) in [("p", ""), ("P", ""), ("[p", ""), ("[p", "x"), ("[P", "x")] {
                            // bare, and inside a character group (where flag x keeps whitespace)
                            let pat = if k.starts_with('[') { format!("[\\{}{{{}}}]", &k[1..], c) } else { format!("\\{}{{{}}}", k, c) };
                            out.inc("states");
                            out.inc("validated");
                            match imp::compile(&pat, flags, false) {
                                Out::Err(EK::Syntax) => out.inc("nontrivial"),
                                o if o.is_crash() => out.inc("inconclusive_crash"),
                                o => out.fail("C10", &Case::new("NAME", &pat, flags).api("compile"), "UnknownNameAccepted", "Err(Syntax)", &format!("{:?}", o.map(|_| ())), "unknown category or block name"),
                            }
                        }
                    }
                }
                out.sample(J::obj(vec![("unknown_names", J::s("case-changed, truncated, extended and space-prefixed variants of every category and block name"))]));
            }
        }
    }
}
