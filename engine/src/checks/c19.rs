//! C19 — back-references match a copy of what their group captured.
//! Exhaustive over the group / back-reference scope x flags {"", i} x inputs;
//! is_match against an exhaustive exploration of all match paths of the
//! ordered reference; spans and $N captures against the selected path on the
//! strict subset; plus a ladder for multi-digit references (\10, \11, \1
//! followed by a digit) with ten and more groups.

use super::common::{self, Compiled};
use crate::core::{Case, Check, ChunkOut, Ctx, Plan, Tier};
use crate::imp::{self, Out};
use crate::refparse::Parsed;
use crate::sem::{Fl, Paths};
use crate::space::{self, SegKind, Space};
use crate::util::{all_strings, J};

pub struct C19;

const LADDER: [&str; 33] = [
    "(?:(a)|b)b*\\1b",
    "(a)?b+\\1b",
    "(a)*[bc]*\\1b",
    "^(?:(a)|b)c*\\1c$",
    "(a|ab|b)*c\\1",
    "^(a|ab|b)*c\\1$",
    "(?:(a)|b)+b*\\1",
    "(a)?a*\\1a",
    "(?:(\\w)\\1)+",
    "^(?:(a|b)\\1)+$",
    "(?:([a-z])\\1-?)+",
    "(a)(b)(c)(d)(e)(f)(g)(h)(i)(j)\\10",
    "(a)(b)(c)(d)(e)(f)(g)(h)(i)(j)\\1\\10",
    "(a)(b)(c)(d)(e)(f)(g)(h)(i)\\10",
    "(a)(b)(c)(d)(e)(f)(g)(h)(i)(j)(k)\\11",
    "(a)(b)(c)(d)(e)(f)(g)(h)(i)(j)(k)\\12",
    "(a)\\11",
    "(a)(b)\\2\\1",
    "(a)(b)(c)(d)(e)(f)(g)(h)(i)(j)\\100",
    "((a)(b)?)\\1\\3x",
    "(a)(b)(c)(d)(e)(f)(g)(h)(i)(j)(?:\\1|\\10)",
    // a captured ASCII letter whose copy is a non-ASCII case variant, and the reverse
    "^(k)\\1$",
    "^(s)\\1$",
    "^(\\w+)-\\1$",
    // counted back-references to a group that is empty or did not participate
    "^(a*)\\1{2}b$",
    "^(?:(a)|b)\\1{2}c$",
    "^(a)\\1{2}$",
    // n capturing alternatives that all match one character at the same position: the last
    // one is reached only after n - 1 results at one position, and its copy must be found
    "^(?:(a)|([ab]))+=\\2$",
    "^(?:(a)|([ab])|([a-c]))+=\\3$",
    "^(?:(a)|([ab])|([a-c])|([a-d]))+=\\4$",
    "^(?:(a)|([ab])|([a-c])|([a-d])|([a-e])|--)+=\\5$",
    // a two-digit reference written inside two groups that are still open
    "^(a)(b)(c)(d)(e)(f)(g)(h)((x([ij])\\11))$",
    "(a)(b)(c)(d)(e)(f)(g)(h)(i)((j)\\11)",
];
const LADDER_INPUTS: [&str; 43] = [
    "bbb", "bb", "bcc", "cb", "abcab", "abcb", "aabb", "aAbB", "xx-yy.", "abab", "bab", "aaa",
    "abcdefghijj", "abcdefghija0", "abcdefghijaj", "abcdefghia0", "abcdefghijkk", "abcdefghijka2", "aa1", "abba", "abab", "abcdefghijj0", "aax", "abcdefghija",
    "k\u{212a}", "\u{212a}k", "s\u{17f}", "\u{17f}S", "MASS-ma\u{17f}s", "ma\u{17f}s-MASS", "b", "bc", "aaa", "aab", "aaaab", "abaac",
    "abcdefghxii", "abcdefghxia1", "abcdefghijj", "abcdefghija1",
    "a=a", "ba=a", "--a=a",
];

fn space_for(tier: Tier) -> (Space, usize) {
    let mut s = Space::new();
    match tier {
        Tier::Quick => {
            s.ast("G", 6, 64).ast("BR", 4, 64).ast("BR3", 5, 64).ast("BRN", 4, 64);
            s.list("ladder", LADDER.len() as u64, 2);
            (s, 3)
        }
        Tier::Thorough => {
            s.ast("G", 8, 1024).ast("BR", 5, 64).ast("BR3", 6, 64).ast("BRN", 5, 64);
            s.list("ladder", LADDER.len() as u64, 2);
            (s, 4)
        }
    }
}

fn judge(out: &mut ChunkOut, ctx: &Ctx, scope: &str, text: &str, flags: &str, parsed: &Parsed, re: &regexml::Regex, inp: &str) {
    let chars: Vec<char> = inp.chars().collect();
    let fl = Fl::parse(flags);
    let paths = Paths::new(&chars, fl, &ctx.ucd);
    let want = match paths.exists(&parsed.ast, parsed.groups) {
        Ok(w) => w,
        Err(_) => {
            out.inc("ref_out_of_budget");
            return;
        }
    };
    out.inc("states");
    out.pin(&|| format!("{:?} {:?} {:?}", text, flags, inp));
    match imp::is_match(re, inp) {
        Out::Ok(g) => {
            out.inc("validated");
            out.inc(if want { "expect_true" } else { "expect_false" });
            if g != want {
                out.fail(
                    "C19",
                    &Case::new(scope, text, flags).input(inp).api("is_match"),
                    if g { "WrongTrue" } else { "WrongFalse" },
                    &want.to_string(),
                    &g.to_string(),
                    "exhaustive exploration of all match paths",
                );
                return;
            }
        }
        _ => {
            out.inc("inconclusive_crash");
            return;
        }
    }
    // spans + captures on the strict subset, non-nullable
    if parsed.ast.has_nullable_loop() || common::ref_nullable(parsed, fl, ctx) != Some(false) {
        return;
    }
    let scan = match common::ref_scan(parsed, &chars, fl, ctx) {
        Some(s) => s,
        None => return,
    };
    let mut repl = String::from("\u{1}");
    for g in 1..=parsed.groups {
        repl.push_str(&format!("${}\u{2}", g));
    }
    repl.push('\u{3}');
    let mut wanted = String::new();
    let mut pos = 0;
    for (st, en, caps) in &scan {
        wanted.extend(&chars[pos..*st]);
        wanted.push('\u{1}');
        for g in 1..=parsed.groups {
            if let Some((a, b)) = caps[g] {
                wanted.extend(&chars[a..b]);
            }
            wanted.push('\u{2}');
        }
        wanted.push('\u{3}');
        pos = *en;
    }
    wanted.extend(&chars[pos..]);
    match imp::replace_all(re, inp, &repl) {
        Out::Ok(got) => {
            out.inc("validated");
            if got != wanted {
                out.fail(
                    "C19",
                    &Case::new(scope, text, flags).input(inp).repl(&repl).api("replace_all"),
                    "WrongSpanOrCapture",
                    &crate::util::vis(&wanted),
                    &crate::util::vis(&got),
                    "selected path of the ordered reference",
                );
            }
        }
        o if o.is_crash() => out.inc("inconclusive_crash"),
        _ => out.inc("impl_says_nullable_see_C16"),
    }
}

impl Check for C19 {
    fn id(&self) -> &'static str {
        "C19"
    }
    fn plan(&self, ctx: &Ctx) -> Plan {
        let (s, maxlen) = space_for(ctx.tier);
        Plan {
            chunks: s.chunks(),
            layer_of: s.layer_fn(),
            description: format!(
                "every pattern AST over leaves a b \\1 \\2 with capturing groups and quantifiers * + ? *? {{2}} that contains a back-reference x flags \"\", \"i\" x every input of length <= {} over {{a,b}} (plus A,B under i); ladder of {} patterns with 10+ groups and multi-digit references: {}",
                maxlen,
                LADDER.len(),
                s.describe()
            ),
            rule: "exhaustive; a program is non-trivial when the reference accepts some and rejects some input".into(),
            assumptions: vec![
                "is_match oracle: exists a match path in the ordered reference (all paths explored)".into(),
                "patterns in which a back-reference occurs together with a quantifier over a possibly-empty body are skipped (a back-reference itself may be empty, so this includes quantified back-references; semantics disputed)".into(),
                "an unset group's back-reference matches the empty string; comparison is case-blind under i".into(),
            ],
        }
    }
    fn run_chunk(&self, ctx: &Ctx, chunk: u64, out: &mut ChunkOut) {
        let (sp, maxlen) = space_for(ctx.tier);
        let (seg, lo, hi) = sp.locate(chunk);
        let scope_name = space::seg_scope_name(seg);
        if let SegKind::List { .. } = seg.kind {
            for i in lo..hi {
                let text = LADDER[i as usize];
                let parsed = match common::ref_valid(text, ctx) {
                    Some(p) => p,
                    None => {
                        // the ladder contains deliberately invalid references as well
                        out.inc("ladder_invalid_by_reference");
                        if let Compiled::Ok(_) = common::compile(text, "", false) {
                            out.fail("C19", &Case::new(&scope_name, text, "").api("compile"), "AcceptsBadReference", "Err(Syntax)", "Ok", "");
                        }
                        continue;
                    }
                };
                out.shape = parsed.ast.shape();
                for flags in ["", "i"] {
                    match common::compile(text, flags, false) {
                        Compiled::Ok(re) => {
                            out.inc("nontrivial");
                            for inp in LADDER_INPUTS {
                                judge(out, ctx, &scope_name, text, flags, &parsed, &re, inp);
                                if flags == "i" {
                                    judge(out, ctx, &scope_name, text, flags, &parsed, &re, &inp.to_uppercase());
                                }
                            }
                        }
                        _ => out.fail("C19", &Case::new(&scope_name, text, flags).api("compile"), "RejectsValidReference", "Ok", "rejected", ""),
                    }
                }
                out.sample(J::obj(vec![("pattern", J::s(text))]));
            }
            return;
        }
        let inputs = all_strings(&['a', 'b'], maxlen);
        let is_br = scope_name.starts_with("BR");
        let inputs = if is_br { all_strings(&['a', 'b'], 4) } else { inputs };
        let inputs_i = all_strings(&['a', 'A', 'b'], if is_br { 4 } else { maxlen.min(3) });
        space::for_each_text(seg, lo, hi, &mut |_i, text| {
            if !text.contains('\\') {
                return;
            }
            let parsed = match common::ref_valid(text, ctx) {
                Some(p) => p,
                None => {
                    out.inc("ref_invalid_skipped");
                    return;
                }
            };
            if parsed.ast.backref_in_disputed_position_strict() {
                out.inc("disputed_skipped");
                return;
            }
            out.shape = parsed.ast.shape();
            for flags in ["", "i"] {
                let re = match common::compile(text, flags, false) {
                    Compiled::Ok(re) => re,
                    Compiled::Rejected => {
                        out.inc("rejected_valid");
                        continue;
                    }
                    Compiled::Crash => {
                        out.inc("inconclusive_crash");
                        continue;
                    }
                };
                let before_t = out.counters.get("expect_true").copied().unwrap_or(0);
                let before_f = out.counters.get("expect_false").copied().unwrap_or(0);
                for inp in if flags == "i" { &inputs_i } else { &inputs } {
                    judge(out, ctx, &scope_name, text, flags, &parsed, &re, inp);
                }
                let t = out.counters.get("expect_true").copied().unwrap_or(0) > before_t;
                let f = out.counters.get("expect_false").copied().unwrap_or(0) > before_f;
                if t && f {
                    out.inc("nontrivial");
                }
            }
            out.sample(J::obj(vec![("pattern", J::s(text))]));
        });
    }
}
