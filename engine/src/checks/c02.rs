//! C02 — matches are leftmost, non-overlapping and chosen by ordered-choice
//! priority. Exhaustive over AST scopes (non-nullable patterns) x flag subsets
//! x inputs; strict clause against the ordered reference where no quantifier
//! is applied to a possibly-empty body, weak clause (leftmost start, span in
//! the match relation, ascending, complete) for every pattern.

use super::common::{self, Compiled};
use crate::core::{Case, Check, ChunkOut, Ctx, Plan, Tier};
use crate::sem::{Fl, Sem};
use crate::space::{self, Space};
use crate::util::{all_strings, FLAG_SUBSETS_IMS, J};

pub struct C02;

fn space_for(tier: Tier) -> (Space, usize) {
    let mut s = Space::new();
    match tier {
        Tier::Quick => {
            s.ast("K", 5, 64).ast("U", 3, 64).ast("GCM", 4, 64).ast("GCE", 3, 64);
            s.ast_range("CL", 1, 4, 64, 2);
            s.ast("ALTC", 5, 64);
            s.ast_range("LP", 1, 3, 32, 5).ast_range("LPI", 1, 3, 32, 5);
            s.ast_range("ALT", 1, 3, 32, 4);
            s.ast_range("FX", 1, 4, 32, 6).ast_range("HI", 1, 4, 32, 4).ast_range("DUP", 1, 4, 16, 4);
            s.ast_range("G", 1, 5, 64, 4).ast_range("BR", 1, 3, 64, 4).ast_range("BR3", 1, 5, 64, 4);
            // anchors and newlines, inputs long enough for three lines
            s.ast_range("AN", 1, 4, 64, 5).ast_range("ALT3", 1, 5, 64, 4).ast_range("ANU", 1, 3, 64, 4).ast_range("OPTG", 1, 3, 32, 5).ast_range("QNA", 1, 4, 16, 11).ast_range("CLG", 1, 5, 32, 3).ast_range("ANL", 1, 3, 32, 6).ast_range("EMPB", 1, 5, 32, 4);
            (s, 3)
        }
        Tier::Thorough => {
            s.ast("K", 5, 64).ast("U", 5, 64).ast("CL", 4, 64).ast("GC", 5, 64).ast("GCM", 5, 64).ast("GCE", 4, 64).ast("ALTC", 6, 64);
            s.ast_range("LP", 1, 4, 32, 6).ast_range("LPI", 1, 3, 32, 5).ast_range("LPI", 4, 4, 32, 4);
            s.ast_range("ALT", 1, 4, 32, 4);
            s.ast_range("FX", 1, 4, 32, 6).ast_range("HI", 1, 4, 32, 4).ast_range("DUP", 1, 4, 16, 4);
            s.ast_range("G", 1, 6, 64, 4).ast_range("BR", 1, 4, 64, 4).ast_range("BR3", 1, 5, 64, 4);
            s.ast_range("AN", 1, 5, 64, 5).ast_range("ALT3", 1, 5, 64, 4).ast_range("ANU", 1, 4, 64, 4).ast_range("OPTG", 1, 5, 32, 4).ast_range("QNA", 1, 4, 16, 12).ast_range("CLG", 1, 5, 32, 4).ast_range("ANL", 1, 3, 32, 6).ast_range("EMPB", 1, 5, 32, 4);
            // deeper / longer layers restricted to patterns without a quantifier over a
            // possibly-empty body and without nested quantifiers
            s.ast_range("K", 6, 6, 512, 203).ast_range("CL", 5, 5, 128, 203).ast_range("GC", 6, 6, 256, 204);
            s.ast_range("KL", 1, 3, 16, 208).ast_range("KL", 4, 4, 32, 206);
            (s, 4)
        }
    }
}

impl Check for C02 {
    fn id(&self) -> &'static str {
        "C02"
    }
    fn plan(&self, ctx: &Ctx) -> Plan {
        let (s, maxlen) = space_for(ctx.tier);
        Plan {
            chunks: s.chunks(),
            layer_of: s.layer_fn(),
            description: format!(
                "match spans reported by analyze and by replace_all (marker replacement) for every non-nullable pattern AST x 8 flag subsets x every input of length <= {} (alphabets include U+1F600 and a combining mark): {}",
                maxlen,
                s.describe()
            ),
            rule: "exhaustive; a program is non-trivial when it has at least one match on some input; strict_programs counts those under the strict ordered-choice clause".into(),
            assumptions: vec![
                "strict ordered-choice clause only where no quantifier is applied to a body that can match empty (Perl, PCRE, Java, JavaScript agree there; verified against Perl in selftest)".into(),
                "offsets are in code points by construction of the alphabets (supplementary-plane character, combining sequence)".into(),
                "nullable patterns (reference matches \"\") are C16's business; crashes are C05/C06's".into(),
            ],
        }
    }
    fn run_chunk(&self, ctx: &Ctx, chunk: u64, out: &mut ChunkOut) {
        let (sp, maxlen) = space_for(ctx.tier);
        let (seg, lo, hi) = sp.locate(chunk);
        let scope_name = space::seg_scope_name(seg);
        let sigma = match &seg.kind {
            space::SegKind::Ast { scope, .. } => crate::gen::scope(scope).sigma,
            _ => unreachable!(),
        };
        // layer parameter: input-length bound + 100 * restriction (see C01)
        let restriction = seg.param / 100;
        let maxlen = if seg.param % 100 > 0 { seg.param % 100 } else { maxlen };
        let inputs = all_strings(&sigma, maxlen);
        let inputs_c: Vec<Vec<char>> = inputs.iter().map(|s| s.chars().collect()).collect();
        space::for_each_text(seg, lo, hi, &mut |_i, text| {
            let parsed = match common::ref_valid(text, ctx) {
                Some(p) => p,
                None => return,
            };
            // back-references: only in the layers that are here for them, outside the
            // disputed positions, and judged by the strict clause alone (the
            // compositional language of the weak clause is not defined for them)
            let with_backref = parsed.ast.has_backref();
            let backref_layer = scope_name.starts_with("BR") || (scope_name.starts_with('G') && !scope_name.starts_with("GC"));
            if with_backref != backref_layer {
                return;
            }
            if with_backref && (parsed.ast.backref_in_disputed_position() || parsed.ast.has_nullable_loop()) {
                out.inc("backref_disputed_skipped");
                return;
            }
            if (restriction >= 1 && parsed.ast.has_nullable_loop()) || (restriction >= 2 && parsed.ast.quant_depth() >= 2) {
                out.inc("restricted_layer_skipped");
                return;
            }
            let strict = !parsed.ast.has_nullable_loop();
            out.shape = parsed.ast.shape();
            for flags in FLAG_SUBSETS_IMS {
                let fl = Fl::parse(flags);
                if common::ref_nullable(&parsed, fl, ctx) != Some(false) {
                    out.inc("nullable_skipped");
                    continue;
                }
                let re = match common::compile(text, flags, false) {
                    Compiled::Ok(re) => re,
                    Compiled::Rejected => {
                        out.inc("rejected_valid");
                        continue;
                    }
                    Compiled::Crash => {
                        out.inc("inconclusive_crash");
                        continue;
                    }
                };
                let mut any_match = false;
                for (k, inp) in inputs.iter().enumerate() {
                    let chars = &inputs_c[k];
                    out.pin(&|| format!("{:?} {:?} {:?}", text, flags, inp));
                    let sp = common::spans(&re, inp);
                    out.inc("states");
                    let got = match (&sp.from_analyze, sp.from_replace.ok()) {
                        (Some(a), Some(r)) => {
                            if a != r {
                                // C04 owns cross-API consistency; judge analyze here
                                out.inc("apis_disagree_see_C04");
                            }
                            a.clone()
                        }
                        _ => {
                            if common::is_empty_err(&sp.analyze) {
                                out.inc("impl_says_nullable_see_C16");
                            } else {
                                out.inc("inconclusive_crash");
                            }
                            continue;
                        }
                    };
                    out.inc("validated");
                    if !got.is_empty() {
                        any_match = true;
                    }
                    let case = Case::new(&scope_name, text, flags).input(inp).api("analyze");
                    // weak clause
                    let sem = Sem { s: chars, f: fl, ucd: &ctx.ucd };
                    let mut pos = 0usize;
                    let mut weak_ok = true;
                    for (st, en) in got.iter().filter(|_| !with_backref) {
                        if *st < pos || en < st {
                            out.fail("C02", &case, "OverlapOrDescending", "ascending non-overlapping spans", &common::show_spans(&got), "");
                            weak_ok = false;
                            break;
                        }
                        match sem.lang_leftmost(&parsed.ast, pos) {
                            Some((l, _)) if l == *st => {}
                            other => {
                                out.fail(
                                    "C02",
                                    &case,
                                    "NotLeftmost",
                                    &format!("next match starts at {:?}", other.map(|x| x.0)),
                                    &common::show_spans(&got),
                                    "",
                                );
                                weak_ok = false;
                                break;
                            }
                        }
                        if sem.ends(&parsed.ast, *st) & (1 << *en) == 0 {
                            out.fail("C02", &case, "SpanNotInLanguage", "a span of the match relation", &common::show_spans(&got), "");
                            weak_ok = false;
                            break;
                        }
                        pos = if en > st { *en } else { *en + 1 };
                    }
                    if weak_ok && !with_backref && pos <= chars.len() {
                        // no further non-empty-start match may exist after the last reported one
                        if pos < chars.len() {
                            if let Some((l, _)) = sem.lang_leftmost(&parsed.ast, pos) {
                                if l < chars.len() {
                                    out.fail("C02", &case, "MissedMatch", &format!("a further match starting at {}", l), &common::show_spans(&got), "");
                                    weak_ok = false;
                                }
                            }
                        }
                    }
                    // strict clause
                    if strict && weak_ok {
                        if let Some(want) = common::ref_scan(&parsed, chars, fl, ctx) {
                            let want: Vec<(usize, usize)> = want.iter().map(|x| (x.0, x.1)).collect();
                            out.inc("strict_validated");
                            if want != got {
                                out.fail("C02", &case, "WrongSpanStrict", &common::show_spans(&want), &common::show_spans(&got), "ordered-choice priority");
                            }
                        } else {
                            out.inc("ref_out_of_budget");
                        }
                    }
                }
                if any_match {
                    out.inc("nontrivial");
                }
                if strict {
                    out.inc("strict_programs");
                }
            }
            out.sample(J::obj(vec![("pattern", J::s(text)), ("strict_clause", J::Bool(strict))]));
        });
    }
}
