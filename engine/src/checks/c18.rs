//! C18 placeholder (filled in later).
use crate::ucd::Ucd;
pub fn replay(_ucd: &Ucd, _text: &str) -> i32 {
    eprintln!("C18 replay not built yet");
    2
}
