//! C18 — a compiled Regex is a pure, reusable, thread-safe value.
//!
//! Three parts:
//! * histories: explicit-state search over sequences of API steps on a pool
//!   of live Regex objects and live, partially consumed iterators (no state
//!   merging: merging would assume the property under test); every step's
//!   observation must equal the observation of the same step run alone on a
//!   freshly compiled Regex;
//! * schedules: 2-3 logical threads executing API steps on SHARED Regex
//!   objects under a controlled scheduler whose scheduling points are the
//!   engine's tick hooks (every loop iteration / iterator step), explored
//!   exhaustively for 0, 1, 2 preemptions (iterative context bounding);
//! * a probe crate asserting `Regex: Send + Sync` at compile time.

use crate::core::{Case, Check, ChunkOut, Ctx, Failure, Plan, Tier};
use crate::imp::{self, Out};
use crate::ucd::Ucd;
use crate::util::{json_get_str, J};
use regexml::Regex;
use std::cell::Cell;
use std::collections::{BTreeSet, HashMap};
use std::sync::{Arc, Condvar, Mutex};

pub struct C18;

// ---------------------------------------------------------------------------
// histories

/// (pattern, flags, inputs used with it, replacement). The first five entries
/// exercise every piece of mutable state; the rest are pairs that a lossy
/// process-wide cache key would confuse (flags that look like a pattern prefix,
/// same pattern under different flags, same text under the other dialect).
const POOL: [(&str, &str, [&str; 2], &str); 17] = [
    ("(a)(b)?", "", ["aab", "xab -- 0123456789 0123456789 0123456789 0123456789 0123456789 -- a -- ab ...."], "<$1|$2>"),
    ("(?:a?|b)*c", "", ["cabc", "aab 0123456789 0123456789 0123456789 0123456789 0123456789 xx abc xx c tail.."], "<$0>"),
    ("(a)\\1|b", "i", ["aAb", "ab 0123456789 0123456789 0123456789 0123456789 0123456789 xx aA xx Aa tail.."], "<$1>"),
    ("\\p{IsGreek}+|a", "", ["\u{3b1}\u{3b2}a", "xab 0123456789 0123456789 0123456789 0123456789 012345 \u{3b1}\u{3c9} -- a -- tail"], "[$0]"),
    ("^a|b", "m", ["a\nab", "aab 0123456789 0123456789 0123456789 0123456789\na 0123456789 xx\nb tail"], "<$0>"),
    ("bc", "i", ["aBC", "xibcx 0123456789 0123456789 0123456789 0123456789 0123456789 BC -- bc tail"], "-"),
    ("ibc", "", ["aBC", "xibcx 0123456789 0123456789 0123456789 0123456789 0123456789 BC -- ibc tail"], "-"),
    ("a.c", "s", ["a\nc", "abc 0123456789 0123456789 0123456789 0123456789 0123456789 a\nc -- a-c tail"], "<$0>"),
    ("a.c", "", ["a\nc", "abc 0123456789 0123456789 0123456789 0123456789 0123456789 a\nc -- a-c tail"], "<$0>"),
    ("^a|b", "", ["a\nab", "aab 0123456789 0123456789 0123456789 0123456789\na 0123456789 xx\nb tail"], "<$0>"),
    ("^a|b", ";xsd", ["a\nab", "^ab 0123456789 0123456789 0123456789 0123456789 0123456789 ^a -- b tail.."], "<$0>"),
    // matches the empty string, but no substring of the first input: the error of the scan
    // APIs must not depend on an earlier is_match
    ("^a*$", "", ["b", "ab 0123456789 0123456789 0123456789 0123456789 0123456789 xx aa xx a tail.."], "<$0>"),
    // an optional group referenced later, behind a literal: registers of an earlier call
    ("x(a)?b\\1", "", ["xaba", "zaxba 0123456789 0123456789 0123456789 0123456789 0123456789 xb xaba tail.."], "-"),
    // an alternation with a possibly-empty branch whose captures must not depend on which
    // branch matched in an earlier call
    ("^((?:ab?)*|c)c?d", "", ["cd", "ccd 0123456789 0123456789 0123456789 0123456789 0123456789 0123456789 tail."], "[$1]"),
    // a non-ASCII literal prefix under flag i
    ("\u{e9}\\d", "i", ["x\u{c9}1y", "abc 0123456789 0123456789 0123456789 0123456789 0123456789 \u{c9}2 \u{e9}3 tail"], "-"),
    // empty groups nested in an empty group: the entries of analyze and their nesting must be
    // the same on every call (nothing may depend on the iteration order of a hash map)
    ("x((y?)(z?))", "", ["xx", "axyzx 0123456789 0123456789 0123456789 0123456789 0123456789 xy -- xz x tail"], "[$1|$2|$3]"),
    // an invalid replacement string: the same error on every call
    ("b", "", ["abc", "xab 0123456789 0123456789 0123456789 0123456789 0123456789 -- b -- ab ...."], "x$y"),
];

fn pool_flags(p: usize) -> (&'static str, bool) {
    if POOL[p].1 == ";xsd" {
        ("", true)
    } else {
        (POOL[p].1, false)
    }
}

const MAX_OBJS: usize = 2;
const MAX_ITERS: usize = 2;

#[derive(Clone, Copy, Debug, PartialEq, Eq, Hash)]
enum Step {
    Compile(usize),
    IsMatch(usize, usize),
    Replace(usize, usize),
    OpenTok(usize, usize),
    OpenAn(usize, usize),
    StepIt(usize),
    DropIt(usize),
}

struct LiveIter {
    it: Box<dyn Iterator<Item = String> + 'static>,
    pat: usize,
    api: &'static str,
    input: usize,
    steps: usize,
}

struct World {
    // iterators must be dropped before the regexes they borrow
    iters: Vec<Option<LiveIter>>,
    objs: Vec<(usize, Box<Regex>)>,
}

impl Drop for World {
    fn drop(&mut self) {
        self.iters.clear();
    }
}

fn compile_pool(p: usize) -> Option<Regex> {
    let (flags, xsd) = pool_flags(p);
    match imp::compile(POOL[p].0, flags, xsd) {
        Out::Ok(r) => Some(r),
        _ => None,
    }
}

fn show_step(s: &Step, w: Option<&World>) -> String {
    let pat_of = |o: usize| -> String {
        match w {
            Some(w) => format!("R{}={:?}", o, POOL[w.objs[o].0].0),
            None => format!("R{}", o),
        }
    };
    match s {
        Step::Compile(p) => format!("compile({:?},{:?}{})", POOL[*p].0, pool_flags(*p).0, if pool_flags(*p).1 { ", xsd" } else { "" }),
        Step::IsMatch(o, i) => format!("is_match({}, input#{})", pat_of(*o), i),
        Step::Replace(o, i) => format!("replace_all({}, input#{})", pat_of(*o), i),
        Step::OpenTok(o, i) => format!("open tokenize({}, input#{})", pat_of(*o), i),
        Step::OpenAn(o, i) => format!("open analyze({}, input#{})", pat_of(*o), i),
        Step::StepIt(k) => format!("next(iterator {})", k),
        Step::DropIt(k) => format!("drop(iterator {})", k),
    }
}

fn open_iter(re: &'static Regex, api: &'static str, input: &str) -> Result<Box<dyn Iterator<Item = String> + 'static>, String> {
    if api == "tokenize" {
        match imp_open(|| re.tokenize(input).map(|it| Box::new(it) as Box<dyn Iterator<Item = String>>)) {
            Ok(Ok(it)) => Ok(it),
            Ok(Err(e)) => Err(format!("Err({:?})", imp::EK::of(&e))),
            Err(m) => Err(m),
        }
    } else {
        match imp_open(|| re.analyze(input).map(|it| Box::new(it.map(|e| format!("{:?}", e))) as Box<dyn Iterator<Item = String>>)) {
            Ok(Ok(it)) => Ok(it),
            Ok(Err(e)) => Err(format!("Err({:?})", imp::EK::of(&e))),
            Err(m) => Err(m),
        }
    }
}

fn imp_open<T>(f: impl FnOnce() -> T) -> Result<T, String> {
    regexml::verif::set_fuel(imp::FUEL);
    std::panic::catch_unwind(std::panic::AssertUnwindSafe(f)).map_err(|_| "CRASH".to_string())
}

fn step_iter(it: &mut Box<dyn Iterator<Item = String> + 'static>) -> String {
    regexml::verif::set_fuel(imp::FUEL);
    match std::panic::catch_unwind(std::panic::AssertUnwindSafe(|| it.next())) {
        Ok(Some(s)) => format!("Some({})", s),
        Ok(None) => "None".to_string(),
        Err(_) => "CRASH".to_string(),
    }
}

impl World {
    fn new() -> World {
        World { iters: vec![], objs: vec![] }
    }
    fn live_iters(&self) -> usize {
        self.iters.iter().filter(|x| x.is_some()).count()
    }
    fn enabled(&self) -> Vec<Step> {
        let mut v = vec![];
        if self.objs.len() < MAX_OBJS {
            for p in 0..POOL.len() {
                v.push(Step::Compile(p));
            }
        }
        for o in 0..self.objs.len() {
            for i in 0..2 {
                v.push(Step::IsMatch(o, i));
                v.push(Step::Replace(o, i));
                if self.live_iters() < MAX_ITERS {
                    v.push(Step::OpenTok(o, i));
                    v.push(Step::OpenAn(o, i));
                }
            }
        }
        for (k, it) in self.iters.iter().enumerate() {
            if it.is_some() {
                v.push(Step::StepIt(k));
                v.push(Step::DropIt(k));
            }
        }
        v
    }
    fn regex_static(&self, o: usize) -> &'static Regex {
        // SAFETY: the Box<Regex> lives in self.objs until the World is dropped,
        // objects are never removed, and World::drop drops all iterators first.
        unsafe { &*(self.objs[o].1.as_ref() as *const Regex) }
    }
    /// Execute a step; returns the observation.
    fn exec(&mut self, s: Step) -> String {
        match s {
            Step::Compile(p) => match compile_pool(p) {
                Some(r) => {
                    self.objs.push((p, Box::new(r)));
                    "Ok".to_string()
                }
                None => "compile failed".to_string(),
            },
            Step::IsMatch(o, i) => {
                let p = self.objs[o].0;
                imp::is_match(&self.objs[o].1, POOL[p].2[i]).show()
            }
            Step::Replace(o, i) => {
                let p = self.objs[o].0;
                imp::replace_all(&self.objs[o].1, POOL[p].2[i], POOL[p].3).show()
            }
            Step::OpenTok(o, i) | Step::OpenAn(o, i) => {
                let api = if matches!(s, Step::OpenTok(..)) { "tokenize" } else { "analyze" };
                let p = self.objs[o].0;
                match open_iter(self.regex_static(o), api, POOL[p].2[i]) {
                    Ok(it) => {
                        self.iters.push(Some(LiveIter { it, pat: p, api, input: i, steps: 0 }));
                        "opened".to_string()
                    }
                    Err(e) => e,
                }
            }
            Step::StepIt(k) => {
                let li = self.iters[k].as_mut().unwrap();
                li.steps += 1;
                step_iter(&mut li.it)
            }
            Step::DropIt(k) => {
                self.iters[k] = None;
                "dropped".to_string()
            }
        }
    }
}

/// Key of a step for the solo-observation table.
fn solo_key(w: &World, s: Step) -> Option<String> {
    Some(match s {
        Step::Compile(p) => format!("c{}", p),
        Step::IsMatch(o, i) => format!("m{}:{}", w.objs[o].0, i),
        Step::Replace(o, i) => format!("r{}:{}", w.objs[o].0, i),
        Step::OpenTok(o, i) => format!("ot{}:{}", w.objs[o].0, i),
        Step::OpenAn(o, i) => format!("oa{}:{}", w.objs[o].0, i),
        Step::StepIt(k) => {
            let li = w.iters[k].as_ref().unwrap();
            format!("s{}:{}:{}:{}", li.pat, li.api, li.input, li.steps + 1)
        }
        Step::DropIt(_) => return None,
    })
}

const SOLO_MAX_STEPS: usize = 24;

/// `rxmc c18solo <p>`: print the solo observation of every step that involves
/// pool pattern p, computed in this (pristine) process.
pub fn solo_table_main(p: usize) {
    let mut cache = HashMap::new();
    let mut emit = |k: String, v: String| println!("{}\t{}", k, crate::util::vis(&v));
    let mut w = World::new();
    emit(format!("c{}", p), w.exec(Step::Compile(p)));
    for i in 0..2 {
        for s in [Step::IsMatch(0, i), Step::Replace(0, i), Step::OpenTok(0, i), Step::OpenAn(0, i)] {
            let k = solo_key(&w, s).unwrap();
            let v = solo_inproc(&mut cache, &w, s);
            emit(k, v);
        }
        for api in ["tokenize", "analyze"] {
            let mut fresh = World::new();
            fresh.exec(Step::Compile(p));
            fresh.exec(if api == "tokenize" { Step::OpenTok(0, i) } else { Step::OpenAn(0, i) });
            if fresh.iters.is_empty() {
                continue;
            }
            for n in 1..=SOLO_MAX_STEPS {
                let v = fresh.exec(Step::StepIt(0));
                emit(format!("s{}:{}:{}:{}", p, api, i, n), v);
            }
        }
    }
}

static SOLO_TABLE: std::sync::OnceLock<HashMap<String, String>> = std::sync::OnceLock::new();

/// The solo observations of all steps, computed once per worker in pristine
/// subprocesses (one per pool pattern), so that process-wide state of the
/// implementation (caches, lazily built tables) cannot leak into the oracle.
fn solo_table() -> &'static HashMap<String, String> {
    SOLO_TABLE.get_or_init(|| {
        let mut t = HashMap::new();
        let exe = std::env::current_exe().expect("current exe");
        for p in 0..POOL.len() {
            let out = std::process::Command::new(&exe).arg("c18solo").arg(p.to_string()).output();
            if let Ok(o) = out {
                for line in String::from_utf8_lossy(&o.stdout).lines() {
                    if let Some((k, v)) = line.split_once('\t') {
                        t.insert(k.to_string(), crate::util::unvis(v));
                    }
                }
            }
        }
        t
    })
}

/// The observation of the same step executed alone on a freshly compiled
/// Regex in a pristine process.
fn solo(cache: &mut HashMap<String, String>, w: &World, s: Step) -> String {
    match solo_key(w, s) {
        None => "dropped".to_string(),
        Some(k) => match solo_table().get(&k) {
            Some(v) => v.clone(),
            // beyond the precomputed number of iterator steps: in-process fallback
            None => solo_inproc(cache, w, s),
        },
    }
}

/// In-process variant (used to build the table and as a fallback).
fn solo_inproc(cache: &mut HashMap<String, String>, w: &World, s: Step) -> String {
    let key = match s {
        Step::Compile(p) => format!("c{}", p),
        Step::IsMatch(o, i) => format!("m{}:{}", w.objs[o].0, i),
        Step::Replace(o, i) => format!("r{}:{}", w.objs[o].0, i),
        Step::OpenTok(o, i) => format!("ot{}:{}", w.objs[o].0, i),
        Step::OpenAn(o, i) => format!("oa{}:{}", w.objs[o].0, i),
        Step::StepIt(k) => {
            let li = w.iters[k].as_ref().unwrap();
            format!("s{}:{}:{}:{}", li.pat, li.api, li.input, li.steps + 1)
        }
        Step::DropIt(_) => return "dropped".to_string(),
    };
    if let Some(v) = cache.get(&key) {
        return v.clone();
    }
    let mut fresh = World::new();
    let v = match s {
        Step::Compile(p) => fresh.exec(Step::Compile(p)),
        Step::IsMatch(o, i) => {
            fresh.exec(Step::Compile(w.objs[o].0));
            fresh.exec(Step::IsMatch(0, i))
        }
        Step::Replace(o, i) => {
            fresh.exec(Step::Compile(w.objs[o].0));
            fresh.exec(Step::Replace(0, i))
        }
        Step::OpenTok(o, i) => {
            fresh.exec(Step::Compile(w.objs[o].0));
            fresh.exec(Step::OpenTok(0, i))
        }
        Step::OpenAn(o, i) => {
            fresh.exec(Step::Compile(w.objs[o].0));
            fresh.exec(Step::OpenAn(0, i))
        }
        Step::StepIt(k) => {
            let li = w.iters[k].as_ref().unwrap();
            fresh.exec(Step::Compile(li.pat));
            fresh.exec(if li.api == "tokenize" { Step::OpenTok(0, li.input) } else { Step::OpenAn(0, li.input) });
            let mut last = String::new();
            for _ in 0..li.steps + 1 {
                last = fresh.exec(Step::StepIt(0));
            }
            last
        }
        Step::DropIt(_) => unreachable!(),
    };
    cache.insert(key, v.clone());
    v
}

fn build(history: &[Step]) -> (World, Vec<String>) {
    let mut w = World::new();
    let mut obs = vec![];
    for s in history {
        obs.push(w.exec(*s));
    }
    (w, obs)
}

fn history_depth(tier: Tier) -> usize {
    match tier {
        Tier::Quick => 4,
        Tier::Thorough => 5,
    }
}

/// Chunk prefixes in deterministic order: all histories of length 2, followed
/// by the seeded iterator prefixes [compile P, open iterator, next] of length 3
/// (explored three / four steps further, i.e. to depth 6 / 7 on that family).
fn prefixes() -> Vec<Vec<Step>> {
    let mut out = vec![];
    let w0 = World::new();
    for a in w0.enabled() {
        let (w1, _) = build(&[a]);
        for b in w1.enabled() {
            out.push(vec![a, b]);
        }
    }
    for p in 0..POOL.len() {
        for i in 0..2 {
            for open in [Step::OpenTok(0, i), Step::OpenAn(0, i)] {
                // (a regex that matches the empty string yields an error instead of an iterator)
                let (w, _) = build(&[Step::Compile(p), open]);
                if w.iters.first().map(|x| x.is_some()).unwrap_or(false) {
                    out.push(vec![Step::Compile(p), open, Step::StepIt(0)]);
                }
            }
        }
    }
    out
}

struct HStats<'a> {
    out: &'a mut ChunkOut,
    cache: HashMap<String, String>,
    distinct: BTreeSet<u64>,
}

fn dfs(st: &mut HStats, history: &mut Vec<Step>, depth_left: usize) {
    let (w, _obs) = build(history);
    st.out.inc("states");
    let en = w.enabled();
    drop(w);
    for s in en {
        // the child: re-execute the prefix, then the step, and judge the step
        let (mut w, _) = build(history);
        let want = solo(&mut st.cache, &w, s);
        st.out.pin(&|| format!("history {:?} then {:?}", history, s));
        let shown = show_step(&s, Some(&w));
        let got = w.exec(s);
        st.out.add("transitions_history_steps", history.len() as u64 + 1);
        st.out.inc("validated");
        st.distinct.insert(crate::util::fnv(&got));
        if got != want {
            let mut hist_txt: Vec<String> = vec![];
            {
                let mut w2 = World::new();
                for h in history.iter() {
                    hist_txt.push(show_step(h, Some(&w2)));
                    w2.exec(*h);
                }
            }
            hist_txt.push(shown.clone());
            let mut case = Case::new("HIST", &hist_txt.join(" ; "), "");
            case.api = "history".into();
            let d = J::obj(vec![
                ("property", J::s("C18")),
                ("kind", J::s("StepDiffersFromSolo")),
                ("history", J::Arr(hist_txt.iter().map(J::s).collect())),
                ("history_codes", J::s(encode_history(history, s))),
                ("expected", J::s(&want)),
                ("observed", J::s(&got)),
                ("note", J::s("expected = the same step executed alone on a freshly compiled Regex")),
            ]);
            st.out.failures.push(Failure { key: case.key("C18", "StepDiffersFromSolo"), detail: d });
        }
        drop(w);
        if depth_left > 1 {
            history.push(s);
            dfs(st, history, depth_left - 1);
            history.pop();
        }
    }
}

fn encode_history(h: &[Step], last: Step) -> String {
    let enc = |s: &Step| -> String {
        match s {
            Step::Compile(p) => format!("C{}", p),
            Step::IsMatch(o, i) => format!("M{}.{}", o, i),
            Step::Replace(o, i) => format!("R{}.{}", o, i),
            Step::OpenTok(o, i) => format!("T{}.{}", o, i),
            Step::OpenAn(o, i) => format!("A{}.{}", o, i),
            Step::StepIt(k) => format!("S{}", k),
            Step::DropIt(k) => format!("D{}", k),
        }
    };
    let mut v: Vec<String> = h.iter().map(enc).collect();
    v.push(enc(&last));
    v.join(" ")
}

fn decode_history(s: &str) -> Vec<Step> {
    s.split_whitespace()
        .filter_map(|t| {
            let (k, rest) = t.split_at(1);
            let mut nums = rest.split('.').filter_map(|x| x.parse::<usize>().ok());
            let a = nums.next()?;
            let b = nums.next().unwrap_or(0);
            Some(match k {
                "C" => Step::Compile(a),
                "M" => Step::IsMatch(a, b),
                "R" => Step::Replace(a, b),
                "T" => Step::OpenTok(a, b),
                "A" => Step::OpenAn(a, b),
                "S" => Step::StepIt(a),
                "D" => Step::DropIt(a),
                _ => return None,
            })
        })
        .collect()
}

// ---------------------------------------------------------------------------
// schedules

thread_local! { static TID: Cell<usize> = const { Cell::new(usize::MAX) }; }

struct SchedState {
    current: usize,
    finished: Vec<bool>,
    prefix: Vec<usize>,
    pos: usize,
    /// (number of enabled threads, chosen index, running thread still enabled)
    trace: Vec<(usize, usize, bool)>,
    diverged: bool,
}

struct Sched {
    st: Mutex<SchedState>,
    cv: Condvar,
}

impl Sched {
    fn choose(st: &mut SchedState, n_enabled: usize, running_enabled: bool) -> usize {
        let c = if st.pos < st.prefix.len() {
            let c = st.prefix[st.pos];
            if c >= n_enabled {
                st.diverged = true;
                0
            } else {
                c
            }
        } else {
            0
        };
        st.pos += 1;
        st.trace.push((n_enabled, c, running_enabled));
        c
    }
    /// Scheduling point: called from the engine's tick hook.
    fn point(&self) {
        let me = TID.with(|t| t.get());
        if me == usize::MAX {
            return;
        }
        let mut st = self.st.lock().unwrap();
        if st.current != me {
            return; // not under control (should not happen)
        }
        // canonical order: the running thread first, then ascending ids
        let mut enabled = vec![me];
        for t in 0..st.finished.len() {
            if t != me && !st.finished[t] {
                enabled.push(t);
            }
        }
        if enabled.len() == 1 {
            return;
        }
        let c = Self::choose(&mut st, enabled.len(), true);
        let next = enabled[c];
        if next != me {
            st.current = next;
            self.cv.notify_all();
            while st.current != me {
                st = self.cv.wait(st).unwrap();
            }
        }
    }
    fn start(&self, me: usize) {
        TID.with(|t| t.set(me));
        let mut st = self.st.lock().unwrap();
        while st.current != me {
            st = self.cv.wait(st).unwrap();
        }
    }
    fn finish(&self) {
        let me = TID.with(|t| t.get());
        let mut st = self.st.lock().unwrap();
        st.finished[me] = true;
        let enabled: Vec<usize> = (0..st.finished.len()).filter(|t| !st.finished[*t]).collect();
        if !enabled.is_empty() {
            let c = if enabled.len() > 1 { Self::choose(&mut st, enabled.len(), false) } else { 0 };
            st.current = enabled[c];
            self.cv.notify_all();
        }
        TID.with(|t| t.set(usize::MAX));
    }
}

/// Wrapper that lets the harness share a Regex between threads even if a
/// change to regexml removed its auto traits; the compile-time probe crate
/// (not this wrapper) decides the Send + Sync clause.
struct Shared(Vec<Regex>);
unsafe impl Send for Shared {}
unsafe impl Sync for Shared {}

type Body = Arc<dyn Fn(&[Regex]) -> Vec<String> + Send + Sync>;

struct Scenario {
    name: &'static str,
    patterns: Vec<(&'static str, &'static str)>,
    bodies: Vec<Body>,
    describe: Vec<&'static str>,
}

fn tok(re: &Regex, s: &str) -> String {
    imp::tokenize(re, s).show()
}
fn an(re: &Regex, s: &str) -> String {
    imp::analyze(re, s).map(|v| imp::show_entries(&v)).show()
}

fn scenarios() -> Vec<Scenario> {
    let mut v = base_scenarios();
    let mirrored: Vec<Scenario> = base_scenarios()
        .into_iter()
        .map(|mut s| {
            s.bodies.reverse();
            s.describe.reverse();
            s.name = Box::leak(format!("{} [thread order reversed]", s.name).into_boxed_str());
            s
        })
        .collect();
    v.extend(mirrored);
    v
}

fn base_scenarios() -> Vec<Scenario> {
    vec![
        Scenario {
            name: "shared (?:ab|c)*d: is_match+replace_all || tokenize",
            patterns: vec![("(?:ab|c)*d", "")],
            bodies: vec![
                Arc::new(|r| vec![imp::is_match(&r[0], "d").show(), imp::replace_all(&r[0], "abd", "<$0>").show()]),
                Arc::new(|r| vec![tok(&r[0], "cdd")]),
            ],
            describe: vec!["is_match(\"d\"); replace_all(\"abd\",\"<$0>\")", "tokenize(\"cdd\") drained"],
        },
        Scenario {
            name: "shared (a)(b)?: replace_all with captures || analyze",
            patterns: vec![("(a)(b)?", "")],
            bodies: vec![
                Arc::new(|r| vec![imp::replace_all(&r[0], "aab", "<$1|$2>").show()]),
                Arc::new(|r| vec![an(&r[0], "abab")]),
            ],
            describe: vec!["replace_all(\"aab\",\"<$1|$2>\")", "analyze(\"abab\") drained"],
        },
        Scenario {
            name: "shared (a)\\1|b flag i: three threads, one call each",
            patterns: vec![("(a)\\1|b", "i")],
            bodies: vec![
                Arc::new(|r| vec![imp::is_match(&r[0], "aA").show()]),
                Arc::new(|r| vec![imp::is_match(&r[0], "ac").show()]),
                Arc::new(|r| vec![imp::replace_all(&r[0], "baab", "<$1>").show()]),
            ],
            describe: vec!["is_match(\"aA\")", "is_match(\"ac\")", "replace_all(\"baab\",\"<$1>\")"],
        },
        Scenario {
            name: "shared (?:a?|b)*c (zero-length memo): is_match || is_match+tokenize",
            patterns: vec![("(?:a?|b)*c", "")],
            bodies: vec![
                Arc::new(|r| vec![imp::is_match(&r[0], "abc").show()]),
                Arc::new(|r| vec![imp::is_match(&r[0], "bd").show(), tok(&r[0], "acbc")]),
            ],
            describe: vec!["is_match(\"abc\")", "is_match(\"bd\"); tokenize(\"acbc\") drained"],
        },
        Scenario {
            name: "shared (a|aa)*c: is_match || replace_all and analyze with captures",
            patterns: vec![("(a|aa)*c", "")],
            bodies: vec![
                Arc::new(|r| vec![imp::is_match(&r[0], "aab").show()]),
                Arc::new(|r| vec![imp::replace_all(&r[0], "xaac", "[$1]").show(), an(&r[0], "ac")]),
            ],
            describe: vec!["is_match(\"aab\")", "replace_all(\"xaac\",\"[$1]\"); analyze(\"ac\") drained"],
        },
        Scenario {
            name: "two regexes, compile of \\p{IsGreek} in one thread while the other matches",
            patterns: vec![("^a|b", "m")],
            bodies: vec![
                Arc::new(|r| vec![imp::replace_all(&r[0], "a\nab", "<$0>").show()]),
                Arc::new(|_r| match imp::compile("\\p{IsGreek}+|\\p{IsCyrillic}", "", false) {
                    Out::Ok(g) => vec!["compiled".to_string(), imp::is_match(&g, "x\u{3b1}").show(), tok(&g, "\u{3b1}a\u{434}")],
                    _ => vec!["compile failed".to_string()],
                }),
            ],
            describe: vec!["replace_all(\"a\\nab\",\"<$0>\") on the shared regex", "compile \\p{IsGreek}+|\\p{IsCyrillic}; is_match; tokenize"],
        },
    ]
}

static SCHED_SLOT: Mutex<Option<Arc<Sched>>> = Mutex::new(None);

fn install_scheduler_hook() {
    regexml::verif::set_scheduler(Some(Box::new(|_site| {
        if TID.with(|t| t.get()) == usize::MAX {
            return;
        }
        let s = SCHED_SLOT.lock().unwrap().clone();
        if let Some(s) = s {
            s.point();
        }
    })));
}

/// One controlled execution: returns (trace, per-thread outputs, diverged).
fn run_schedule(prefix: &[usize], shared: &Arc<Shared>, bodies: &[Body]) -> (Vec<(usize, usize, bool)>, Vec<Vec<String>>, bool) {
    let s = Arc::new(Sched {
        st: Mutex::new(SchedState {
            current: 0,
            finished: vec![false; bodies.len()],
            prefix: prefix.to_vec(),
            pos: 0,
            trace: vec![],
            diverged: false,
        }),
        cv: Condvar::new(),
    });
    *SCHED_SLOT.lock().unwrap() = Some(s.clone());
    let hs: Vec<_> = bodies
        .iter()
        .enumerate()
        .map(|(i, b)| {
            let s = s.clone();
            let b = b.clone();
            let sh = shared.clone();
            std::thread::spawn(move || {
                s.start(i);
                let r = std::panic::catch_unwind(std::panic::AssertUnwindSafe(|| b(&sh.0))).unwrap_or_else(|_| vec!["CRASH".to_string()]);
                s.finish();
                r
            })
        })
        .collect();
    let outs: Vec<Vec<String>> = hs.into_iter().map(|h| h.join().unwrap_or_else(|_| vec!["THREAD PANIC".to_string()])).collect();
    *SCHED_SLOT.lock().unwrap() = None;
    let st = s.st.lock().unwrap();
    (st.trace.clone(), outs, st.diverged)
}

struct SStats {
    executed: u64,
    schedules: u64,
    points: u64,
    distinct: BTreeSet<String>,
    bad: Vec<(Vec<usize>, Vec<Vec<String>>)>,
    diverged: u64,
}

fn explore(prefix: Vec<usize>, bound: usize, exact: bool, shared: &Arc<Shared>, bodies: &[Body], expect: &[Vec<String>], st: &mut SStats) {
    let (trace, outs, diverged) = run_schedule(&prefix, shared, bodies);
    if diverged {
        st.diverged += 1;
        return;
    }
    let choices: Vec<usize> = trace.iter().map(|t| t.1).collect();
    let cost_upto = |i: usize| -> usize { (0..i).filter(|&j| trace[j].2 && trace[j].1 != 0).count() };
    let total = cost_upto(trace.len());
    st.executed += 1;
    if st.executed % 200 == 0 {
        // heartbeat for the coordinator's silence watchdog
        println!("H\t{}", st.executed);
    }
    if !exact || total == bound {
        st.schedules += 1;
        st.points += trace.len() as u64;
        st.distinct.insert(format!("{:?}", outs));
        if outs != expect && st.bad.len() < 3 {
            st.bad.push((choices.clone(), outs.clone()));
        }
    }
    for i in prefix.len()..trace.len() {
        let mut cost = cost_upto(i);
        if trace[i].2 {
            cost += 1;
        }
        if cost > bound {
            continue;
        }
        for alt in 1..trace[i].0 {
            let mut p = choices[..i].to_vec();
            p.push(alt);
            explore(p, bound, exact, shared, bodies, expect, st);
        }
    }
}

fn sched_bounds(tier: Tier) -> Vec<usize> {
    match tier {
        Tier::Quick => vec![0, 1, 2],
        Tier::Thorough => vec![0, 1, 2, 3],
    }
}

// ---------------------------------------------------------------------------

fn n_prefix_chunks() -> u64 {
    prefixes().len() as u64
}

impl Check for C18 {
    fn id(&self) -> &'static str {
        "C18"
    }
    fn plan(&self, ctx: &Ctx) -> Plan {
        let np = n_prefix_chunks();
        let ns = scenarios().len() as u64;
        let nb = sched_bounds(ctx.tier).len() as u64;
        let depth = history_depth(ctx.tier);
        let npairs = pair_chunks(ctx.tier);
        Plan {
            chunks: np + ns * nb + 2 + pair_chunks(ctx.tier) + FATIGUE.len() as u64 + POOL.len() as u64 + proc_chunks(),
            layer_of: Box::new(move |c| {
                if c < np {
                    format!("histories to depth {}", depth)
                } else if c < np + ns * nb {
                    format!("schedules, preemption bound {}", (c - np) % nb)
                } else if c == np + ns * nb {
                    "Send + Sync probe".to_string()
                } else if c == np + ns * nb + 1 {
                    "free-running first-call supplement (sampling)".to_string()
                } else if c < np + ns * nb + 2 + npairs {
                    "ordered pairs of compilations on one thread".to_string()
                } else if c < np + ns * nb + 2 + npairs + FATIGUE.len() as u64 {
                    "long sequences of compilations on one thread".to_string()
                } else if c < np + ns * nb + 2 + npairs + FATIGUE.len() as u64 + POOL.len() as u64 {
                    "a dozen failing calls, then every call".to_string()
                } else {
                    "ordered pairs of compilations, each pair in its own process".to_string()
                }
            }),
            description: format!(
                "(a) every history of up to {} API steps (plus the seeded family [compile, open iterator, next] explored two steps deeper) (compile, is_match, replace_all, open tokenize/analyze, next, drop) over a pool of {} patterns x 2 inputs with at most {} live Regex objects and {} live iterators, full step tree without state merging, each step compared with the same step run alone on a fresh Regex; (b) {} thread scenarios on shared Regex objects under a controlled scheduler (scheduling points = engine tick hooks), all schedules with preemption bounds {:?}; (c) compile-time probe Regex: Send + Sync",
                depth,
                POOL.len(),
                MAX_OBJS,
                MAX_ITERS,
                ns,
                sched_bounds(ctx.tier)
            ),
            rule: "exhaustive within the stated depth / preemption bound; states = histories (nodes of the step tree) + schedules executed; distinct observation vectors are counted".into(),
            assumptions: vec![
                "regexml/src contains no unsafe code, so data races are excluded by the type system and interleaving at tick granularity is a sound model of concurrency for state that a change could share".into(),
                "no scheduling point lies inside BlockLookup::new; std's OnceLock is trusted".into(),
                "histories are rebuilt by re-execution (live objects cannot be cloned); the first chunk of every worker process starts with a cold process-wide block table".into(),
                "a schedule in which a thread blocks on a lock held by a descheduled thread cannot be driven by this scheduler and is reported as a machinery timeout, not as a verdict".into(),
            ],
        }
    }
    fn run_chunk(&self, ctx: &Ctx, chunk: u64, out: &mut ChunkOut) {
        let np = n_prefix_chunks();
        let scs = scenarios();
        let bounds = sched_bounds(ctx.tier);
        let nb = bounds.len() as u64;
        if chunk < np {
            let pre = prefixes()[chunk as usize].clone();
            let mut st = HStats { out, cache: HashMap::new(), distinct: BTreeSet::new() };
            // judge the prefix steps themselves once (chunk 0 of each first step covers them via dfs of depth; here only the subtree)
            let mut history = pre.clone();
            let depth = history_depth(ctx.tier);
            // the two prefix steps are judged by replaying them from the root
            {
                let mut h0: Vec<Step> = vec![];
                for s in &pre {
                    let (mut w, _) = build(&h0);
                    let want = solo(&mut st.cache, &w, *s);
                    let got = w.exec(*s);
                    st.out.inc("validated");
                    if got != want {
                        let mut case = Case::new("HIST", &encode_history(&h0, *s), "");
                        case.api = "history".into();
                        let d = J::obj(vec![
                            ("property", J::s("C18")),
                            ("kind", J::s("StepDiffersFromSolo")),
                            ("history_codes", J::s(encode_history(&h0, *s))),
                            ("expected", J::s(&want)),
                            ("observed", J::s(&got)),
                        ]);
                        st.out.failures.push(Failure { key: case.key("C18", "StepDiffersFromSolo"), detail: d });
                    }
                    h0.push(*s);
                }
            }
            if pre.len() == 3 {
                // seeded iterator family: three (quick) / four (thorough) further steps
                dfs(&mut st, &mut history, depth - 1);
            } else if depth > 2 {
                dfs(&mut st, &mut history, depth - 2);
            }
            let n = st.distinct.len() as u64;
            st.out.max("distinct_step_observations_in_a_chunk", n);
            st.out.add("nontrivial", n);
            st.out.sample(J::obj(vec![("history_prefix", J::s(encode_history(&pre[..pre.len() - 1], pre[pre.len() - 1]))), ("explored_to_depth", J::i(if pre.len() == 3 { depth + 2 } else { depth }))]));
            return;
        }
        if chunk < np + scs.len() as u64 * nb {
            let k = chunk - np;
            let sc = &scs[(k / nb) as usize];
            let bound = bounds[(k % nb) as usize];
            if bound >= 3 && sc.name.ends_with("[thread order reversed]") {
                // the deepest bound is explored for the base thread order only
                out.inc("mirrored_scenario_bound3_not_explored");
                out.sample(J::obj(vec![("scenario", J::s(sc.name)), ("preemption_bound", J::i(bound)), ("explored", J::Bool(false))]));
                return;
            }
            install_scheduler_hook();
            let regs: Vec<Regex> = sc.patterns.iter().filter_map(|(p, f)| imp::compile(p, f, false).ok().map(|_| Regex::xpath(p, f).unwrap())).collect();
            if regs.len() != sc.patterns.len() {
                out.inc("rejected_valid");
                return;
            }
            // expected = each body alone on fresh regexes, no scheduler control (TID unset)
            let fresh: Vec<Regex> = sc.patterns.iter().map(|(p, f)| Regex::xpath(p, f).unwrap()).collect();
            let expect: Vec<Vec<String>> = sc.bodies.iter().map(|b| b(&fresh)).collect();
            let shared = Arc::new(Shared(regs));
            let mut st = SStats { executed: 0, schedules: 0, points: 0, distinct: BTreeSet::new(), bad: vec![], diverged: 0 };
            // each bound chunk counts exactly the schedules with that many preemptions
            explore(vec![], bound, true, &shared, &sc.bodies, &expect, &mut st);
            out.add("states", st.schedules);
            out.add("schedules", st.schedules);
            out.add("validated", st.schedules);
            out.add("scheduling_points", st.points);
            out.add("replay_divergences", st.diverged);
            out.max("distinct_outcome_vectors_in_a_scenario", st.distinct.len() as u64);
            out.max("max_scheduling_points_per_execution", if st.schedules > 0 { st.points / st.schedules } else { 0 });
            for (sched, outs) in st.bad.iter().take(1) {
                // a failing schedule must reproduce identically twice
                let r1 = run_schedule(sched, &shared, &sc.bodies).1;
                let r2 = run_schedule(sched, &shared, &sc.bodies).1;
                let reproducible = &r1 == outs && &r2 == outs;
                let mut case = Case::new("SCHED", sc.name, "");
                case.api = format!("bound{}", bound);
                case.input = format!("{:?}", sched);
                let d = J::obj(vec![
                    ("property", J::s("C18")),
                    ("kind", J::s("ScheduleChangesResult")),
                    ("scenario", J::s(sc.name)),
                    ("threads", J::Arr(sc.describe.iter().map(|x| J::s(*x)).collect())),
                    ("schedule", J::s(sched.iter().map(|x| x.to_string()).collect::<Vec<_>>().join(" "))),
                    ("preemption_bound", J::i(bound)),
                    ("expected", J::s(format!("{:?}", expect))),
                    ("observed", J::s(format!("{:?}", outs))),
                    ("replayed_twice_identically", J::Bool(reproducible)),
                ]);
                if reproducible {
                    out.failures.push(Failure { key: case.key("C18", "ScheduleChangesResult"), detail: d });
                } else {
                    out.inc("irreproducible_schedule_outcomes");
                }
            }
            if st.diverged > 0 {
                out.inc("machinery_replay_divergence");
            }
            regexml::verif::set_scheduler(None);
            out.sample(J::obj(vec![
                ("scenario", J::s(sc.name)),
                ("threads", J::Arr(sc.describe.iter().map(|x| J::s(*x)).collect())),
                ("preemption_bound", J::i(bound)),
                ("schedules", J::i(st.schedules)),
            ]));
            return;
        }
        if chunk == np + scs.len() as u64 * nb + 1 {
            free_running_supplement(out);
            return;
        }
        if chunk > np + scs.len() as u64 * nb + 1 {
            let k = chunk - (np + scs.len() as u64 * nb + 2);
            if k < pair_chunks(ctx.tier) {
                pair_chunk(ctx.tier, k, out);
            } else if k < pair_chunks(ctx.tier) + FATIGUE.len() as u64 {
                fatigue_chunk((k - pair_chunks(ctx.tier)) as usize, out);
            } else if k < pair_chunks(ctx.tier) + FATIGUE.len() as u64 + POOL.len() as u64 {
                call_fatigue_chunk((k - pair_chunks(ctx.tier) - FATIGUE.len() as u64) as usize, out);
            } else {
                proc_chunk(k - pair_chunks(ctx.tier) - FATIGUE.len() as u64 - POOL.len() as u64, out);
            }
            return;
        }
        // Send + Sync probe
        out.inc("states");
        out.inc("validated");
        match std::process::Command::new("cargo")
            .args(["check", "--offline", "--quiet"])
            .current_dir(format!("{}/engine/probes/sendsync", crate::core::root()))
            .env("CARGO_TARGET_DIR", format!("{}/engine/target/probe", crate::core::root()))
            .output()
        {
            Ok(o) => {
                if !o.status.success() {
                    let err = String::from_utf8_lossy(&o.stderr).to_string();
                    let is_trait = err.contains("Send") || err.contains("Sync") || err.contains("cannot be shared") || err.contains("cannot be sent");
                    if is_trait {
                        let mut case = Case::new("PROBE", "Regex: Send + Sync", "");
                        case.api = "compile-time".into();
                        out.fail("C18", &case, "NotSendSync", "the probe crate compiles", &err.lines().filter(|l| l.contains("error") || l.contains("cannot")).take(4).collect::<Vec<_>>().join(" | "), "");
                    } else {
                        out.inc("probe_build_failed_for_other_reason");
                    }
                }
            }
            Err(_) => out.inc("probe_could_not_run"),
        }
        out.sample(J::obj(vec![("probe", J::s("fn f<T: Send + Sync>() {} f::<regexml::Regex>()"))]));
    }
}

// ---------------------------------------------------------------------------
// ordered pairs of compilations

/// (pattern, flags, dialect) triples that a cache with an incomplete key would
/// confuse: the same text under other flags or the other dialect, the same flags
/// with a related text. Invalid triples stay in: the error must be the same too.
// (the last one: a two-digit reference to a closed group from inside an open one, decided from
// the set of closed groups - compiling it must give the same program every time)
const PAIR_PATTERNS: [&str; 17] = ["a*A", "[a-c]", "^a", "a$", "a.c", "(a)\\1", "[k]", "a b", "\\p{Lu}", "\\p{IsLu}", "x+.", "b", "A", "\\$", "(?:a)", "a??", "(x(a)(b)(c)(d)(e)(f)(g)(h)(i)(j)\\11|B)"];
const PAIR_FLAGS: [&str; 7] = ["", "i", "m", "s", "x", "q", "im"];
const PAIR_INPUTS: [&str; 11] = ["a", "aA", "a\nb", "a b", "k", "K", "abc", "a$", "^a", "B", "xx"];

fn n_triples() -> usize {
    PAIR_PATTERNS.len() * PAIR_FLAGS.len() * 2
}

fn triple(t: usize) -> (&'static str, &'static str, bool) {
    let xsd = t % 2 == 1;
    let f = (t / 2) % PAIR_FLAGS.len();
    let p = t / 2 / PAIR_FLAGS.len();
    (PAIR_PATTERNS[p], PAIR_FLAGS[f], xsd)
}

/// Compile the triple and observe the whole API surface on every input.
fn triple_surface(t: usize) -> String {
    let (p, f, xsd) = triple(t);
    match imp::compile(p, f, xsd) {
        Out::Ok(re) => {
            let mut v = vec!["Ok".to_string()];
            for inp in PAIR_INPUTS {
                v.push(imp::surface(&re, inp, "<$0|$1>").show());
            }
            v.join(" ;; ")
        }
        o => o.map(|_| ()).show(),
    }
}

pub fn pair_solo_main(t: usize) {
    println!("{}", crate::util::vis(&triple_surface(t)));
}

static PAIR_SOLO: std::sync::OnceLock<Vec<String>> = std::sync::OnceLock::new();

/// Every triple compiled and observed alone in a pristine process.
fn pair_solo() -> &'static Vec<String> {
    PAIR_SOLO.get_or_init(|| {
        let exe = std::env::current_exe().expect("current exe");
        let n = n_triples();
        let mut out = vec![String::new(); n];
        let next = std::sync::atomic::AtomicUsize::new(0);
        let slots: Vec<std::sync::Mutex<String>> = (0..n).map(|_| std::sync::Mutex::new(String::new())).collect();
        std::thread::scope(|sc| {
            for _ in 0..4 {
                sc.spawn(|| loop {
                    let t = next.fetch_add(1, std::sync::atomic::Ordering::SeqCst);
                    if t >= n {
                        break;
                    }
                    if let Ok(o) = std::process::Command::new(&exe).arg("c18pairsolo").arg(t.to_string()).output() {
                        *slots[t].lock().unwrap() = crate::util::unvis(String::from_utf8_lossy(&o.stdout).trim());
                    }
                });
            }
        });
        for (t, s) in slots.into_iter().enumerate() {
            out[t] = s.into_inner().unwrap();
        }
        out
    })
}

/// Quick: pairs that share the pattern text or share flags and dialect; thorough: all.
fn pair_list(tier: Tier) -> Vec<(usize, usize)> {
    let n = n_triples();
    let mut v = vec![];
    for a in 0..n {
        for b in 0..n {
            if a == b {
                continue;
            }
            let (pa, fa, xa) = triple(a);
            let (pb, fb, xb) = triple(b);
            if tier == Tier::Thorough || pa == pb || (fa == fb && xa == xb) {
                v.push((a, b));
            }
        }
    }
    v
}

// ---------------------------------------------------------------------------
// ordered pairs, one process each (process-wide lazily built state)

/// Patterns whose compilation consults tables that are built once per process (block and
/// category tables, case data): whichever compilation comes first in a process must not
/// decide what a later one means. Every ordered pair (A, B) of (pattern, dialect, flags)
/// runs in a process of its own - compile A and use it, compile B and observe it - and B
/// must behave as in a process where it is alone.
const PROC_PATTERNS: [&str; 8] = ["\\p{IsBasicLatin}", "\\P{IsHighSurrogates}", "\\p{IsPrivateUse}", "\\p{Lu}", "[\\p{IsGreek}-[\\p{Lu}]]", "\\w", "\\i", "k"];
const PROC_FLAGS: [&str; 2] = ["", "i"];
const PROC_INPUTS: [&str; 8] = ["a", "A", "\u{3b1}", "\u{391}", "\u{e000}", "\u{f0000}", "\u{212a}", "_"];

fn n_proc_triples() -> usize {
    PROC_PATTERNS.len() * PROC_FLAGS.len() * 2
}

fn proc_triple(t: usize) -> (&'static str, &'static str, bool) {
    let xsd = t % 2 == 1;
    let f = (t / 2) % PROC_FLAGS.len();
    (PROC_PATTERNS[t / 2 / PROC_FLAGS.len()], PROC_FLAGS[f], xsd)
}

fn proc_surface(t: usize) -> String {
    let (p, f, xsd) = proc_triple(t);
    match imp::compile(p, f, xsd) {
        Out::Ok(re) => {
            let mut v = vec!["Ok".to_string()];
            for inp in PROC_INPUTS {
                v.push(imp::surface(&re, inp, "<$0>").show());
            }
            v.join(" ;; ")
        }
        o => o.map(|_| ()).show(),
    }
}

/// `rxmc c18procpair <a|-> <b>`: in this (fresh) process compile and use A, then B; print B.
pub fn proc_pair_main(a: Option<usize>, b: usize) {
    if let Some(a) = a {
        let _ = proc_surface(a);
    }
    println!("{}", crate::util::vis(&proc_surface(b)));
}

/// Replay of a recorded process pair: both processes are run again, no explorer.
pub fn replay_proc_pair(spec: &str) -> i32 {
    let v: Vec<usize> = spec.split_whitespace().filter_map(|x| x.parse().ok()).collect();
    if v.len() != 2 {
        eprintln!("malformed proc_pair field");
        return 2;
    }
    let exe = std::env::current_exe().expect("current exe");
    let run = |a: Option<usize>, b: usize| -> String {
        std::process::Command::new(&exe)
            .arg("c18procpair")
            .arg(a.map_or("-".to_string(), |x| x.to_string()))
            .arg(b.to_string())
            .output()
            .map(|o| String::from_utf8_lossy(&o.stdout).trim().to_string())
            .unwrap_or_default()
    };
    let (pa, fa, xa) = proc_triple(v[0]);
    let (pb, fb, xb) = proc_triple(v[1]);
    println!("fresh process 1: compile({:?},{:?},{}) and use it; compile({:?},{:?},{}) and observe it", pa, fa, if xa { "xsd" } else { "xpath" }, pb, fb, if xb { "xsd" } else { "xpath" });
    println!("fresh process 2: compile({:?},{:?},{}) and observe it", pb, fb, if xb { "xsd" } else { "xpath" });
    let (after, alone) = (run(Some(v[0]), v[1]), run(None, v[1]));
    println!("after the first compilation: {}", after);
    println!("alone:                       {}", alone);
    if after != alone {
        println!("REPRODUCED: the second compilation depends on the first");
        1
    } else {
        println!("NOT REPRODUCED: identical observations");
        0
    }
}

const PROC_PER_CHUNK: usize = 64;

fn proc_chunks() -> u64 {
    let n = n_proc_triples();
    ((n * n + PROC_PER_CHUNK - 1) / PROC_PER_CHUNK) as u64
}

fn proc_chunk(k: u64, out: &mut ChunkOut) {
    let n = n_proc_triples();
    let exe = std::env::current_exe().expect("current exe");
    let run = |a: Option<usize>, b: usize| -> Option<String> {
        let o = std::process::Command::new(&exe).arg("c18procpair").arg(a.map_or("-".to_string(), |x| x.to_string())).arg(b.to_string()).output().ok()?;
        let s = crate::util::unvis(String::from_utf8_lossy(&o.stdout).trim());
        if s.is_empty() {
            None
        } else {
            Some(s)
        }
    };
    let lo = k as usize * PROC_PER_CHUNK;
    let hi = (lo + PROC_PER_CHUNK).min(n * n);
    let mut solo: HashMap<usize, Option<String>> = HashMap::new();
    let mut distinct = BTreeSet::new();
    for idx in lo..hi {
        let (a, b) = (idx / n, idx % n);
        out.inc("states");
        out.add("api_steps", 2 * (1 + 4 * PROC_INPUTS.len() as u64));
        let want = solo.entry(b).or_insert_with(|| run(None, b)).clone();
        let got = run(Some(a), b);
        let (want, got) = match (want, got) {
            (Some(w), Some(g)) => (w, g),
            _ => {
                out.inc("machinery_proc_pair_missing");
                continue;
            }
        };
        out.inc("validated");
        distinct.insert(crate::util::fnv(&got));
        if want != got {
            let (pa, fa, xa) = proc_triple(a);
            let (pb, fb, xb) = proc_triple(b);
            let mut case = Case::new("PROCPAIR", &format!("{} then {}", pa, pb), &format!("{} then {}", fa, fb));
            case.dialect = match (xa, xb) {
                (false, false) => "xpath then xpath",
                (false, true) => "xpath then xsd",
                (true, false) => "xsd then xpath",
                (true, true) => "xsd then xsd",
            };
            case.api = "second".to_string();
            let d = J::obj(vec![
                ("property", J::s("C18")),
                ("kind", J::s("CompilationDependsOnEarlierOne")),
                ("sequence", J::s(format!("in a fresh process: compile({:?},{:?},{}) and use it; compile({:?},{:?},{}) and use it", pa, fa, if xa { "xsd" } else { "xpath" }, pb, fb, if xb { "xsd" } else { "xpath" }))),
                ("expected", J::s(&want)),
                ("observed", J::s(&got)),
                ("proc_pair", J::s(format!("{} {}", a, b))),
                ("note", J::s("expected = the second triple compiled and observed alone in a fresh process (rxmc c18procpair - <b>)")),
            ]);
            out.failures.push(Failure { key: case.key("C18", "CompilationDependsOnEarlierOne"), detail: d });
        }
    }
    out.add("nontrivial", distinct.len() as u64);
    out.sample(J::obj(vec![("process_pairs", J::i(hi - lo))]));
}

const PAIRS_PER_CHUNK: usize = 512;

fn pair_chunks(tier: Tier) -> u64 {
    ((pair_list(tier).len() + PAIRS_PER_CHUNK - 1) / PAIRS_PER_CHUNK) as u64
}

/// For every ordered pair (A, B): on a fresh thread compile A and use it, then compile
/// B; B's observations must be those of B compiled alone in a pristine process.
fn pair_chunk(tier: Tier, k: u64, out: &mut ChunkOut) {
    let list = pair_list(tier);
    let solo = pair_solo();
    let lo = k as usize * PAIRS_PER_CHUNK;
    let hi = (lo + PAIRS_PER_CHUNK).min(list.len());
    let mut distinct = BTreeSet::new();
    for &(a, b) in &list[lo..hi] {
        out.inc("states");
        out.add("api_steps", 2 * (1 + 4 * PAIR_INPUTS.len() as u64));
        let got = std::thread::spawn(move || {
            let first = triple_surface(a);
            let second = triple_surface(b);
            (first, second)
        })
        .join()
        .unwrap_or_else(|_| ("CRASH".to_string(), "CRASH".to_string()));
        out.inc("validated");
        distinct.insert(crate::util::fnv(&got.1));
        for (which, t, obs) in [("first", a, &got.0), ("second", b, &got.1)] {
            if solo[t].is_empty() {
                out.inc("machinery_pair_solo_missing");
                continue;
            }
            if *obs != solo[t] {
                let (pa, fa, xa) = triple(a);
                let (pb, fb, xb) = triple(b);
                let mut case = Case::new("PAIR", &format!("{} then {}", pa, pb), &format!("{} then {}", fa, fb));
                case.dialect = match (xa, xb) {
                    (false, false) => "xpath then xpath",
                    (false, true) => "xpath then xsd",
                    (true, false) => "xsd then xpath",
                    (true, true) => "xsd then xsd",
                };
                case.api = which.to_string();
                let d = J::obj(vec![
                    ("property", J::s("C18")),
                    ("kind", J::s("CompilationDependsOnEarlierOne")),
                    ("sequence", J::s(format!("on a fresh thread: compile({:?},{:?},{}) and use it; compile({:?},{:?},{}) and use it", pa, fa, if xa { "xsd" } else { "xpath" }, pb, fb, if xb { "xsd" } else { "xpath" }))),
                    ("judged", J::s(which)),
                    ("expected", J::s(&solo[t])),
                    ("observed", J::s(obs)),
                    ("note", J::s("expected = the same triple compiled and observed alone in a pristine process")),
                ]);
                out.failures.push(Failure { key: case.key("C18", "CompilationDependsOnEarlierOne"), detail: d });
            }
        }
    }
    out.add("nontrivial", distinct.len() as u64);
    out.sample(J::obj(vec![("pairs", J::i(hi - lo)), ("first_pair", J::s(format!("{:?} then {:?}", triple(list[lo].0), triple(list[lo].1))))]));
}

// ---------------------------------------------------------------------------
// long sequences of compilations

/// Sequences run on one fresh thread before the probes: many failing compilations
/// of one malformed pattern (state that only a successful parse cleans up), every
/// category and many block escapes once (small fixed-size caches), many distinct
/// valid patterns.
const FATIGUE: [&str; 9] = ["(a", "((((a", "[a", "[a-[b", "a{2", "(?:(a)|", "\\p{L", "<every category and 40 block escapes>", "<every pair triple>"];
const FATIGUE_REPEAT: usize = 600;

fn fatigue_chunk(k: usize, out: &mut ChunkOut) {
    let solo = pair_solo();
    let what = FATIGUE[k];
    let n = n_triples();
    let got: Vec<String> = std::thread::spawn(move || {
        if what.starts_with("<every category") {
            for c in crate::refparse::CATS {
                let _ = imp::compile(&format!("\\p{{{}}}", c), "", false);
                let _ = imp::compile(&format!("[\\P{{{}}}a]", c), "", false);
            }
            for b in ["BasicLatin", "Latin-1Supplement", "Greek", "Cyrillic", "Hebrew", "Arabic", "Thai", "Hiragana", "Katakana", "Armenian", "Devanagari", "Bengali", "Tamil", "Georgian", "Ethiopic", "Cherokee", "Ogham", "Runic", "Khmer", "Mongolian", "GeneralPunctuation", "CurrencySymbols", "Arrows", "MathematicalOperators", "BoxDrawing", "Dingbats", "BraillePatterns", "CJKUnifiedIdeographs", "HangulSyllables", "PrivateUseArea", "Specials", "Tibetan", "Myanmar", "Lao", "Sinhala", "Malayalam", "Kannada", "Telugu", "Oriya", "Gujarati"] {
                let _ = imp::compile(&format!("\\p{{Is{}}}", b), "", false);
            }
        } else if what.starts_with("<every pair") {
            for t in 0..n {
                let _ = triple_surface(t);
            }
        } else {
            for _ in 0..FATIGUE_REPEAT {
                let _ = imp::compile(what, "", false);
                let _ = imp::compile(what, "x", true);
            }
        }
        (0..n).map(triple_surface).collect()
    })
    .join()
    .unwrap_or_default();
    out.add("states", n as u64);
    out.add("api_steps", (FATIGUE_REPEAT * 2 + n * (1 + 4 * PAIR_INPUTS.len())) as u64);
    if got.len() != n {
        let mut case = Case::new("FATIGUE", what, "");
        case.api = "sequence".into();
        out.fail("C18", &case, "CrashAfterSequence", "every triple observable", "the thread panicked", "");
        return;
    }
    for t in 0..n {
        out.inc("validated");
        if solo[t].is_empty() {
            out.inc("machinery_pair_solo_missing");
            continue;
        }
        if got[t] != solo[t] {
            let (p, f, x) = triple(t);
            let mut case = Case::new("FATIGUE", &format!("{} then {}", what, p), f);
            case.dialect = if x { "xsd" } else { "xpath" };
            case.api = "sequence".into();
            let d = J::obj(vec![
                ("property", J::s("C18")),
                ("kind", J::s("CompilationDependsOnEarlierOnes")),
                ("sequence", J::s(format!("on a fresh thread: {} x {} (both dialects), then every pair triple in order; judged: compile({:?},{:?},{})", what, FATIGUE_REPEAT, p, f, if x { "xsd" } else { "xpath" }))),
                ("expected", J::s(&solo[t])),
                ("observed", J::s(&got[t])),
                ("note", J::s("expected = the same triple compiled and observed alone in a pristine process")),
            ]);
            out.failures.push(Failure { key: case.key("C18", "CompilationDependsOnEarlierOnes"), detail: d });
        }
    }
    out.inc("nontrivial");
    out.sample(J::obj(vec![("sequence", J::s(what)), ("repeated", J::i(FATIGUE_REPEAT)), ("probes", J::i(n))]));
}

// ---------------------------------------------------------------------------
// many calls on one object

/// Twelve calls that find nothing (and twelve that do) on a fresh object, then every
/// API on both pool inputs: the observations must be those of the solo table (counters
/// and adaptive shortcuts inside a Regex).
fn call_fatigue_chunk(p: usize, out: &mut ChunkOut) {
    let mut cache = HashMap::new();
    for warm in ["\u{0}\u{0}", "WARM-WITH-FIRST-INPUT"] {
        let mut w = World::new();
        w.exec(Step::Compile(p));
        if w.objs.is_empty() {
            continue;
        }
        for _ in 0..12 {
            let inp = if warm.starts_with("WARM") { POOL[p].2[0] } else { warm };
            let _ = imp::is_match(&w.objs[0].1, inp);
            let _ = imp::replace_all(&w.objs[0].1, inp, "");
        }
        out.add("api_steps", 24);
        for i in 0..2 {
            for s in [Step::IsMatch(0, i), Step::Replace(0, i), Step::OpenTok(0, i), Step::OpenAn(0, i)] {
                let want = solo(&mut cache, &w, s);
                let shown = show_step(&s, Some(&w));
                let got = w.exec(s);
                out.inc("states");
                out.inc("validated");
                if got != want {
                    let mut case = Case::new("CALLS", POOL[p].0, pool_flags(p).0);
                    case.api = "history".into();
                    case.input = format!("12 x is_match + replace_all on {:?}, then {}", if warm.starts_with("WARM") { POOL[p].2[0] } else { warm }, shown);
                    let d = J::obj(vec![
                        ("property", J::s("C18")),
                        ("kind", J::s("StepDiffersFromSolo")),
                        ("sequence", J::s(&case.input)),
                        ("expected", J::s(&want)),
                        ("observed", J::s(&got)),
                        ("note", J::s("expected = the same call on a fresh Regex in a pristine process")),
                    ]);
                    out.failures.push(Failure { key: case.key("C18", "StepDiffersFromSolo"), detail: d });
                }
            }
        }
    }
    out.inc("nontrivial");
    out.sample(J::obj(vec![("pattern", J::s(POOL[p].0)), ("warm_up", J::s("12 calls that find nothing / 12 calls on the first pool input"))]));
}

// ---------------------------------------------------------------------------
// free-running supplement

/// Four real threads, released together by a barrier, make their first calls
/// on a freshly compiled shared Regex; repeated with fresh objects. This is
/// SAMPLING (the OS decides the interleaving): silence proves nothing and the
/// exhaustive parts above decide the property. It is kept because it can
/// observe races inside code that has no scheduling point (state built lazily
/// on the first call with atomics), which the controlled scheduler cannot
/// preempt. A discrepancy is a real counterexample (results are compared with
/// a private, single-threaded Regex).
fn free_running_supplement(out: &mut ChunkOut) {
    const PATTERNS: [(&str, &str, &str); 8] = [
        ("[x-z]b+", "", "zbb"),
        ("[\u{fe}\u{ff}]b", "", "a\u{ff}b"),
        ("abc", "i", "xxABc"),
        ("\\p{IsGreek}+", "", "x\u{3b1}\u{3b2}"),
        ("^a|b", "m", "x\na"),
        ("(a)\\1", "", "baa"),
        ("(?:a?|b)*c", "", "abc"),
        ("\\d{2,}[a-f]", "", "x123e"),
    ];
    let rounds = 150;
    let threads = 4;
    let mut rounds_run = 0u64;
    for (p, f, inp) in PATTERNS {
        let solo = match Regex::xpath(p, f) {
            Ok(r) => r,
            Err(_) => continue,
        };
        let want = (solo.is_match(inp), solo.replace_all(inp, "<$0>").ok(), solo.tokenize(inp).ok().map(|t| t.collect::<Vec<_>>()));
        let mut bad: Option<String> = None;
        for _ in 0..rounds {
            let shared = Arc::new(Shared(vec![Regex::xpath(p, f).unwrap()]));
            let barrier = Arc::new(std::sync::Barrier::new(threads));
            let hs: Vec<_> = (0..threads)
                .map(|_| {
                    let sh = shared.clone();
                    let b = barrier.clone();
                    let inp = inp.to_string();
                    std::thread::spawn(move || {
                        b.wait();
                        let r = &sh.0[0];
                        (r.is_match(&inp), r.replace_all(&inp, "<$0>").ok(), r.tokenize(&inp).ok().map(|t| t.collect::<Vec<_>>()))
                    })
                })
                .collect();
            for h in hs {
                match h.join() {
                    Ok(got) => {
                        if got != want && bad.is_none() {
                            bad = Some(format!("{:?}", got));
                        }
                    }
                    Err(_) => {
                        if bad.is_none() {
                            bad = Some("thread panicked".to_string());
                        }
                    }
                }
            }
            rounds_run += 1;
        }
        out.add("free_running_rounds", rounds as u64);
        if let Some(got) = bad {
            let mut case = Case::new("FREERUN", p, f).input(inp);
            case.api = "first call from 4 threads".into();
            out.fail(
                "C18",
                &case,
                "ConcurrentFirstCallDiffers",
                &format!("{:?}", want),
                &got,
                "free-running supplement: observed with real threads released by a barrier on a fresh shared Regex; not replayable by schedule (the interleaving was chosen by the OS)",
            );
        }
    }
    out.add("states", rounds_run);
    out.sample(J::obj(vec![("free_running_supplement", J::s("4 threads x first call on a fresh shared Regex, 8 patterns x 150 rounds; sampling, decides nothing on silence"))]));
}

// ---------------------------------------------------------------------------
// replay

pub fn replay(_ucd: &Ucd, text: &str) -> i32 {
    if let Some(codes) = json_get_str(text, "history_codes") {
        let h = decode_history(&codes);
        println!("replaying history (no explorer): {}", codes);
        let mut w = World::new();
        let mut cache = HashMap::new();
        for s in &h {
            let want = solo(&mut cache, &w, *s);
            let shown = show_step(s, Some(&w));
            let got = w.exec(*s);
            println!("  {:<50} -> {}{}", shown, got, if got != want { format!("   <-- DIFFERS from solo run: {}", want) } else { String::new() });
        }
        return 0;
    }
    if let Some(sched) = json_get_str(text, "schedule") {
        let name = json_get_str(text, "scenario").unwrap_or_default();
        let choices: Vec<usize> = sched.split_whitespace().filter_map(|x| x.parse().ok()).collect();
        let scs = scenarios();
        let sc = match scs.iter().find(|s| s.name == name) {
            Some(s) => s,
            None => {
                eprintln!("unknown scenario {:?}", name);
                return 2;
            }
        };
        install_scheduler_hook();
        let regs: Vec<Regex> = sc.patterns.iter().map(|(p, f)| Regex::xpath(p, f).unwrap()).collect();
        let fresh: Vec<Regex> = sc.patterns.iter().map(|(p, f)| Regex::xpath(p, f).unwrap()).collect();
        let expect: Vec<Vec<String>> = sc.bodies.iter().map(|b| b(&fresh)).collect();
        let shared = Arc::new(Shared(regs));
        println!("replaying schedule {:?} of scenario {:?}", choices, name);
        for round in 0..2 {
            let (_t, outs, div) = run_schedule(&choices, &shared, &sc.bodies);
            println!("  run {}: {:?}{}", round + 1, outs, if div { "  (REPLAY DIVERGED)" } else { "" });
        }
        println!("  solo : {:?}", expect);
        regexml::verif::set_scheduler(None);
        return 0;
    }
    eprintln!("not a C18 violation file");
    2
}
