import collections,sys
f=sys.argv[1]; n=int(sys.argv[2]) if len(sys.argv)>2 else 60
pats=collections.Counter(); ex={}
for l in open(f):
    l=l.rstrip('\n').split('\t')[0]
    x=l.split('|')
    k=(x[1][:2],x[2],x[7],x[8])
    pats[k]+=1; ex.setdefault(k,(x[3],x[4],x[5],x[6]))
print(len(pats),'groups',sum(pats.values()),'cases')
for p,c in sorted(pats.items(), key=lambda x:(len(x[0][1]),x[0]))[:n]:
    print(f"{str(p):60} x{c:5} eg flags={ex[p][0]!r} {ex[p][1]} in={ex[p][2]!r} repl={ex[p][3]!r}")
