#!/bin/sh
# run the repository's own suite (guard off) and print a one-line summary
cd /repo && cargo test --workspace --no-fail-fast --offline 2>&1 | grep -E "^test result" | awk '{p+=$4; f+=$6} END {print "passed="p" failed="f}'
