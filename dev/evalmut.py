#!/usr/bin/env python3
"""Development-time tool: confirm seeded changes produced by independent
sub-agents and measure which checks catch them.

For every /tmp/mutout-<ID>/patch<i>.diff:
  1. scratch worktree of /repo at HEAD (outside /repo and /verif), patch applied;
  2. the repository's own suite must still pass (1032);
  3. the agent's demo must fail with the patch and pass without;
  4. a private copy of /verif (engine pointed at the scratch worktree) runs
     every check's quick tier (and the thorough tier of the targeted property
     if quick is silent); exit codes are recorded;
  5. worktree and build output removed.
Results: /verif/seeded/<ID>-<i>/{patch.diff,demo.rs,meta.json} when confirmed.
"""
import json, os, re, shutil, subprocess, sys, time
from concurrent.futures import ThreadPoolExecutor

CHECKS = ["C%02d" % i for i in range(1, 21)]
SLOTS = int(os.environ.get("SLOTS", "3"))
# MUTDIR=mutout2 TAG=r2 evaluates /tmp/mutout2-<ID>/patch<i>.diff as <ID>r2-<i>
MUTDIR = os.environ.get("MUTDIR", "mutout")
TAG = os.environ.get("TAG", "")
SNAP = subprocess.run("git -C /verif rev-parse HEAD", shell=True, capture_output=True, text=True).stdout.strip()

def sh(cmd, cwd=None, env=None, timeout=3600):
    e = dict(os.environ)
    e["CARGO_NET_OFFLINE"] = "true"
    if env:
        e.update(env)
    p = subprocess.run(cmd, shell=True, cwd=cwd, env=e, capture_output=True, text=True, timeout=timeout)
    return p.returncode, p.stdout + p.stderr

def suite(wt, tgt):
    rc, out = sh("cargo test --workspace --no-fail-fast --offline 2>&1 | grep -E '^test result' | awk '{p+=$4; f+=$6} END {print p\" \"f}'", cwd=wt, env={"CARGO_TARGET_DIR": tgt})
    try:
        p, f = out.strip().split()[-2:]
        return int(p), int(f)
    except Exception:
        return -1, -1

def demo(wt, tgt, name):
    rc, out = sh(f"cargo test --offline --test {name} 2>&1 | tail -5", cwd=os.path.join(wt, "regexml"), env={"CARGO_TARGET_DIR": tgt})
    m = re.search(r"test result: (\w+)\. (\d+) passed; (\d+) failed", out)
    if not m:
        return None, out[-400:]
    return (int(m.group(2)), int(m.group(3))), ""

def evaluate(job):
    slot, ident, i = job
    name = f"{ident}{TAG}-{i}"
    src = f"/tmp/{MUTDIR}-{ident}"
    patch = f"{src}/patch{i}.diff"
    wt = f"/tmp/ev-{name}"
    tgt = f"/tmp/evtarget-{slot}"
    vroot = f"/tmp/evverif-{slot}"
    res = {"id": name, "breaks": ident, "ran": [], "verif_snapshot": SNAP}
    sh(f"git -C /repo worktree remove --force {wt}")
    rc, out = sh(f"git -C /repo worktree add -q --detach {wt} HEAD")
    if rc != 0:
        res["error"] = "worktree: " + out[-300:]
        return res
    try:
        rc, out = sh(f"git apply {patch}", cwd=wt)
        res["ran"].append(f"git apply patch{i}.diff (scratch worktree of /repo HEAD) -> rc {rc}")
        if rc != 0:
            res["error"] = "patch does not apply to current HEAD: " + out[-300:]
            return res
        prev = None
        try:
            prev = json.load(open(f"/tmp/evalmut-{name}.json"))
        except Exception:
            pass
        if prev and prev.get("suite_with_patch", {}).get("passed") == 1032 and prev.get("demo_with_patch") and prev.get("demo_clean"):
            # confirmation already done in an earlier run of this tool (same patch, same scratch procedure)
            for k in ("suite_with_patch", "demo_with_patch", "demo_clean"):
                res[k] = prev[k]
            res["ran"] += [r for r in prev.get("ran", []) if r.startswith("cargo test")]
        else:
            p, f = suite(wt, tgt)
            res["suite_with_patch"] = {"passed": p, "failed": f}
            res["ran"].append(f"cargo test --workspace --no-fail-fast --offline -> passed={p} failed={f}")
            dn = f"demo_{ident.lower()}_{i}"
            shutil.copy(f"{src}/demo{i}.rs", f"{wt}/regexml/tests/{dn}.rs")
            d1, err = demo(wt, tgt, dn)
            res["demo_with_patch"] = d1
            sh(f"git apply -R {patch}", cwd=wt)
            d0, err0 = demo(wt, tgt, dn)
            res["demo_clean"] = d0
            res["ran"].append(f"cargo test --offline --test {dn}: with patch {d1}, clean tree {d0} (passed, failed)")
            os.remove(f"{wt}/regexml/tests/{dn}.rs")
            sh(f"git apply {patch}", cwd=wt)
        # private copy of /verif with the engine pointed at the scratch worktree
        if os.path.exists(vroot):
            shutil.rmtree(vroot)
        # committed state of /verif only (the working tree may be mid-edit)
        sh(f"mkdir -p {vroot} && git -C /verif archive {SNAP} | tar -x -C {vroot} && rm -rf {vroot}/seeded")
        for f2 in [f"{vroot}/engine/Cargo.toml", f"{vroot}/engine/probes/sendsync/Cargo.toml"]:
            s = open(f2).read().replace('path = "/repo/regexml"', f'path = "{wt}/regexml"')
            open(f2, "w").write(s)
        env = {"CARGO_TARGET_DIR": f"{tgt}-eng", "RUSTFLAGS": "--cfg regexml_verif", "VERIF_ROOT": vroot}
        rc, out = sh("cargo build --release --offline 2>&1 | tail -3", cwd=f"{vroot}/engine", env=env)
        exe = f"{tgt}-eng/release/rxmc"
        if not os.path.exists(exe):
            res["error"] = "engine build failed: " + out[-300:]
            return res
        det = {}
        # ONLY_TARGETED=1: confirm the change and run the targeted check only (plus EXTRA="C14 C18" if given)
        checks = CHECKS
        if os.environ.get("ONLY_TARGETED"):
            checks = sorted(set([ident] + os.environ.get("EXTRA", "").split()))
            res["only_checks"] = checks
        for c in checks:
            t0 = time.time()
            rc, out = sh(f"{exe} check {c} --tier quick --jobs 4", cwd=f"{vroot}/engine", env=env)
            first = [l for l in out.split("\n") if l.startswith("VIOLATION")][:1]
            det[c] = {"quick_exit": rc, "secs": round(time.time() - t0, 1)}
            if first:
                vf = first[0].split("replay=")[-1]
                try:
                    det[c]["first_violation_key"] = json.load(open(vf))["key"][:300]
                except Exception:
                    pass
        if det[ident]["quick_exit"] == 0:
            rc, out = sh(f"{exe} check {ident} --tier thorough --jobs 4 --max-secs 600", cwd=f"{vroot}/engine", env=env)
            det[ident]["thorough_exit"] = rc
        res["detection"] = det
        res["caught_by_quick"] = [c for c in checks if det[c]["quick_exit"] == 1]
        res["machinery_errors"] = [c for c in checks if det[c]["quick_exit"] not in (0, 1)]
        res["ran"].append("every check's quick tier in a private copy of /verif whose engine depends on the scratch worktree (equivalent to git -C /repo apply; ./check <ID> quick; git -C /repo checkout -- .)")
        return res
    finally:
        sh(f"git -C /repo worktree remove --force {wt}")
        sh(f"rm -rf {wt}")

def main():
    jobs = []
    ids = sys.argv[1:]
    for ident in ids:
        for i in (1, 2):
            if os.path.exists(f"/tmp/{MUTDIR}-{ident}/patch{i}.diff"):
                jobs.append((ident, i))
    jobs = [(k % SLOTS, a, b) for k, (a, b) in enumerate(jobs)]
    # one job per slot at a time
    by_slot = {s: [j for j in jobs if j[0] == s] for s in range(SLOTS)}
    def run_slot(s):
        out = []
        for j in by_slot[s]:
            try:
                r = evaluate(j)
            except Exception as e:
                r = {"id": f"{j[1]}{TAG}-{j[2]}", "error": repr(e)}
            out.append(r)
            with open(f"/tmp/evalmut-{j[1]}{TAG}-{j[2]}.json", "w") as fh:
                json.dump(r, fh, indent=1)
            print(json.dumps({k: r.get(k) for k in ("id", "suite_with_patch", "demo_with_patch", "demo_clean", "caught_by_quick", "machinery_errors", "error")}), flush=True)
        return out
    with ThreadPoolExecutor(SLOTS) as ex:
        list(ex.map(run_slot, range(SLOTS)))
    for s in range(SLOTS):
        shutil.rmtree(f"/tmp/evverif-{s}", ignore_errors=True)

if __name__ == "__main__":
    main()
