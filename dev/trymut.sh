#!/bin/sh
# dev aid: apply seeded change <dir>/patch<i>.diff to /repo's working tree, run the given checks' quick tier, revert.
# usage: trymut.sh <mutdir-prefix> <ID> <i> [check ...]   (default check: the targeted one)
pre=$1; id=$2; i=$3; shift 3
checks=${*:-$id}
p=/tmp/$pre-$id/patch$i.diff
if ! git -C /repo apply $p 2>/dev/null; then echo "$id-$i APPLYFAIL"; exit 0; fi
res=""
for c in $checks; do
  u=$(/verif/check $c quick 2>&1 | grep -E "quick:" | sed 's/.*unexplained=\([0-9]*\).*/\1/')
  res="$res $c=$u"
done
git -C /repo checkout -- .; git -C /repo clean -fdq regexml
echo "$id-$i$res"
