#!/usr/bin/env python3
"""Development-time tool (never used by a registered command): run the
thorough tier of the checks that still fail on the repaired tree, classify
every failing case by the structural attributes of its pattern, and freeze the
exact case sets under /verif/findings. Every class is a root cause described
in DESIGN.md; a case that fits no class aborts the freeze."""
import subprocess, os, sys, collections, re
ROOT='/verif'
CHECKS=sys.argv[1:] or ['C01','C02','C03','C04','C05','C08','C09','C11','C12','C16','C17','C19','C20']
FINDINGS={
 'D17': "greedy repeat of a body that can match empty loses matches: the progress guard cuts the repeat off after four results at one position ('(?:.*)*a' on 'ab' does not match; 'a(?:.*)+' reports a shorter span); cannot be repaired because regexml's own test test_plus_inside_and_star_inside_capture_group pins the wrong answer for '^(.*)+B' on 'AB'",
 'D19': "nested variable-length repeats lose matches through the same progress guard when an inner repeat reports one end position five times in a row, which happens with a minimum of two over three nesting levels or with duplicate alternatives ('(?:(?:(?:a+)+){2,}?){2}' on 'aaaa' and '(?:(?:ab|ab){1,2}){2,3}(?:ab)' on 'ababab' do not match)",
 'D24': "the zero-length-match history also suppresses an empty match that a REQUIRED iteration of an enclosing repeat needs: '(?:^(?:a|bb)*){2,3}' does not match 'b' and '(?:(?:a|bb)*$){2}' does not match 'a' (the second, empty iteration is refused because the inner repeat already reported an empty match at that position); on the empty input the required iterations are clamped to one since fix 419a024, so the nullability probe of C16 is no longer affected; the history cannot be dropped without failing regexml's test re00036 (first reported by a seeding sub-agent as a pre-existing defect)",
 'D22': "a group captured on an alternative that is later abandoned is reported by analyze as present and empty instead of absent: rolling back only shrinks the group to zero length ('(?:(a)|b?)a' on the third 'a' of 'aaa' yields Group{nr:1} although group 1 did not participate); the same rollback mechanism as D9",
 'D26': "the dotted capital I (U+0130) and the dotless small i (U+0131) are simple case counterparts of 'i' and 'I' (their simple lower- / upper-case mappings), but ICU's case closure and simple case folding leave them out: under flag i the class [i] does not match U+0130 while the literal i does, U+0131 and I never match each other, and since the literal U+0130 does match 'i' (lower-case comparison) while the first-character analysis (case closure) says it cannot, 'U+0130*i' is turned into a non-backtracking repeat and no longer matches 'i'; a complete repair needs a reverse table of the simple case mappings for the class closure and the first-character sets, which is a design change rather than a minimal patch",
 'D28': "a pattern nested 100000 levels deep (groups, non-capturing groups, right-nested alternations, class subtractions, optional groups, quantified groups) overflows the stack and aborts the process instead of returning Ok or Err(Syntax): parser, optimiser, matcher and Drop all recurse on the nesting depth (observed in a subprocess on a thread with a fixed 16 MiB stack; depths up to 256 complete). A nesting limit would turn the abort into an error but reject grammar-valid patterns (C07), an iterative rewrite of four recursive passes is not a small patch",
 'D31': "a greedy repeat whose body has a fixed length (GreedyFixed) tries only the FIRST way of matching its body in each iteration; when the ways differ in which group captures (alternatives of equal length that capture different groups), a back-reference to a group of a later alternative finds nothing: '^(?:(a)|([ab]))+=\\2$' does not match 'a=a', '^(?:(ab)|a(b))+\\2$' does not match 'abb' (reported by a seeding sub-agent of round 8 as pre-existing). A repair would compile such bodies to the general Repeat, which changes the operation behind every '(x|y)*' with groups and puts D9's rollback behaviour behind it: not a small patch",
 'D9': "a capturing group inside a repetition reports the wrong text after backtracking into the repetition: captures of abandoned iterations are not restored ('(a)*a' on 'aa' gives $1 = '' instead of 'a'; '(?:(a)+\\1){2}' matches 'aaa')",
}
def classify(prop, key, shape):
    kind=key.split('|')[8].split('#')[0]
    scope=key.split('|')[1]
    if scope in ('case triggers','related','LITCLS'):
        # only the dotted / dotless i family is a recorded finding
        if '\\u{130}' in key or '\\u{131}' in key: return 'D26'
        f=key.split('|')
        # the large range contains U+0130 / U+0131; their counterparts i / I are the input
        if scope=='related' and f[2].startswith('^[\\u{100}-') and f[5] in ('i','I'): return 'D26'
        return None
    if prop=='C19' and scope=='ladder' and key.split('|')[2].startswith('^(?:(a)\\u{7c}([ab])') and kind in ('WrongFalse',): return 'D31'
    if scope.startswith('DUP'): return 'D19'
    if scope.startswith('HIST'): return 'D24'
    if scope=='deep nesting': return 'D28' if (kind=='Abort' and 'depth 100000' in key) else None
    if 'group-in-repeat' in shape and 'backref' in shape: return 'D9'
    if prop=='C16' and 'nullable-loop' in shape: return 'D24'
    if 'nullable-loop' in shape: return 'D17'
    if prop=='C03' and kind=='GroupShouldBeAbsent' and 'group-in-repeat' not in shape: return 'D22'
    if 'group-in-repeat' in shape and (prop in ('C03','C19') or 'backref' in shape): return 'D9'
    m=re.search(r'quant-depth-(\d+)', shape)
    if m and int(m.group(1))>=2: return 'D19'
    return None
existing=[l for l in open(f'{ROOT}/known_findings.txt').read().split('\n')]
keep=[l for l in existing if not l.startswith('known:') or not any(f'property={c} ' in l for c in CHECKS)]
new=[]
os.makedirs(f'{ROOT}/findings',exist_ok=True)
for c in CHECKS:
    # freeze against an empty known list for this property
    open(f'{ROOT}/known_findings.txt','w').write('\n'.join(keep+new)+'\n')
    dump=f'/root/freeze-{c}.keys'
    if os.path.exists(dump): os.remove(dump)
    env=dict(os.environ, RXMC_DUMP=dump)
    r=subprocess.run([f'{ROOT}/check',c,'thorough'],env=env,capture_output=True,text=True)
    print(c, r.stdout.split('\n')[0])
    sets=collections.defaultdict(list)
    if os.path.exists(dump):
        for line in open(dump):
            key,_,shape=line.rstrip('\n').partition('\t')
            f=classify(c,key,shape)
            if f is None:
                print('UNCLASSIFIED',key,shape); sys.exit(1)
            sets[f].append(key)
    for f,keys in sorted(sets.items()):
        path=f'findings/{c}-{f}.set'
        keys=sorted(set(keys))
        with open(f'{ROOT}/{path}','w') as fh:
            fh.write(f'# exact failing cases of property {c} attributed to {f}; generated by dev/freeze.py from a complete thorough run\n')
            fh.write('\n'.join(keys)+'\n')
        new.append(f'known: property={c} id={f} set={path} what={FINDINGS[f]}')
        print('  ',path,len(keys))
open(f'{ROOT}/known_findings.txt','w').write('\n'.join(keep+new)+'\n')
