#!/usr/bin/env python3
"""Development aid: print the detection matrix of /verif/seeded as markdown, one table per round."""
import json, glob, os, re, collections
rows=collections.defaultdict(list)
try:
    WHO=json.load(open('/root/who_catches.json'))
except Exception:
    WHO={}
for d in sorted(glob.glob('/verif/seeded/*/meta.json')):
    m=json.load(open(d))
    ident=m['id']
    rnd=m.get('round',1) if isinstance(m.get('round',1),int) else 1
    if ident.startswith('own-'):
        continue
    desc=str(m.get('description_by_author','')).strip().split('\n')[0]
    desc=re.sub(r'^(Change|CHANGE)\s*\d*\s*[-:(]*\s*','',desc)
    desc=re.sub(r'\s+',' ',desc)[:150].replace('|','\\|')
    caught=' '.join(m.get('caught_by_quick') or [])
    tgt=m.get('breaks')
    t='yes' if tgt in (m.get('caught_by_quick') or []) else ('thorough' if m.get('targeted_check_thorough_exit')==1 else 'no')
    fin=m.get('targeted_check_quick_on_final_snapshot')
    if fin=='silent':
        fin='silent; reported by '+WHO[ident] if WHO.get(ident) else ('silent; no check reports it' if ident in WHO else 'silent')
    rows[rnd].append((ident,desc,caught,t,fin))
for rnd in sorted(rows):
    snap={json.load(open(f'/verif/seeded/{r[0]}/meta.json')).get('evaluated_on_verif_commit') for r in rows[rnd]}
    print(f"\n**Round {rnd}** ({len(rows[rnd])} confirmed changes; every check's quick tier on /verif commit {', '.join(sorted(str(s)[:7] for s in snap))}):\n")
    print("| id | change (author's words) | quick checks that report a VIOLATION | targeted check then | targeted check, final tree |")
    print("|---|---|---|---|---|")
    for r in rows[rnd]:
        print(f"| {r[0]} | {r[1]} | {r[2]} | {r[3]} | {'' if r[4] is None else r[4]} |")
