#!/usr/bin/env python3
"""Development aid: for every seeded change that the quick tier of its targeted check does not report
(/root/final_targeted.json), find another check whose quick tier reports it (same scratch-worktree
procedure as dev/final_targeted.py); write /root/who_catches.json (id -> check or null)."""
import json, os, subprocess, sys, threading, queue
SLOTS=int(os.environ.get('SLOTS','4'))
ORDER="C14 C18 C05 C03 C08 C12 C10 C11 C13 C02 C01 C15 C16 C04 C19 C20 C17 C07 C09 C06".split()
SNAP=subprocess.run('git -C /verif rev-parse HEAD',shell=True,capture_output=True,text=True).stdout.strip()
fin=json.load(open('/root/final_targeted.json'))
out={}
try: out=json.load(open('/root/who_catches.json'))
except Exception: pass
lock=threading.Lock()
def sh(c,cwd=None,env=None,timeout=3000):
    e=dict(os.environ); e['CARGO_NET_OFFLINE']='true'
    if env: e.update(env)
    try:
        p=subprocess.run(c,shell=True,capture_output=True,text=True,cwd=cwd,env=e,timeout=timeout)
        return p.returncode,p.stdout+p.stderr
    except subprocess.TimeoutExpired:
        return 124,'timeout'
q=queue.Queue()
for ident,v in sorted(fin.items()):
    if v=='silent' and ident not in out: q.put(ident)
def worker(slot):
    wt=f'/tmp/wc-{slot}-repo'; vroot=f'/tmp/wc-{slot}-verif'; tgt=f'/tmp/wc-{slot}-target'
    sh(f'git -C /repo worktree remove --force {wt}'); sh(f'rm -rf {wt} {vroot}')
    rc,o=sh(f'git -C /repo worktree add -q --detach {wt} HEAD'); assert rc==0,o
    sh(f'mkdir -p {vroot} && git -C /verif archive {SNAP} | tar -x -C {vroot} && rm -rf {vroot}/seeded {vroot}/evidence/thorough')
    for f2 in [f'{vroot}/engine/Cargo.toml', f'{vroot}/engine/probes/sendsync/Cargo.toml']:
        s=open(f2).read().replace('path = "/repo/regexml"', f'path = "{wt}/regexml"'); open(f2,'w').write(s)
    env={'CARGO_TARGET_DIR':tgt,'RUSTFLAGS':'--cfg regexml_verif','VERIF_ROOT':vroot}
    while True:
        try: ident=q.get_nowait()
        except queue.Empty: break
        sh('git checkout -- . ; git clean -fdq regexml',cwd=wt)
        rc,o=sh(f'git apply /verif/seeded/{ident}/patch.diff',cwd=wt)
        hit=None
        if rc==0:
            sh('cargo build --release --offline 2>&1 | tail -3',cwd=f'{vroot}/engine',env=env)
            for c in ORDER:
                if c==ident[:3]: continue
                rc,o=sh(f'{tgt}/release/rxmc check {c} --tier quick --jobs 4',cwd=f'{vroot}/engine',env=env)
                if rc==1 and 'VIOLATION property='+c in o:
                    hit=c; break
        sh('git checkout -- . ; git clean -fdq regexml',cwd=wt)
        with lock:
            out[ident]=hit
            print(ident,hit,flush=True)
            json.dump(out,open('/root/who_catches.json','w'),indent=1)
    sh(f'git -C /repo worktree remove --force {wt}'); sh(f'rm -rf {wt} {vroot} {tgt}')
ts=[threading.Thread(target=worker,args=(s,)) for s in range(SLOTS)]
for t in ts: t.start()
for t in ts: t.join()
