#!/usr/bin/env python3
"""Development aid: for every seeded change, apply it to a scratch worktree of /repo's HEAD, run the quick
tier of the check of the property it targets from a private copy of the committed /verif whose engine
depends on that worktree (equivalent to git -C /repo apply; ./check <ID> quick; git -C /repo checkout -- .),
revert; write /root/final_targeted.json (id -> outcome). SLOTS worktrees run in parallel."""
import json, glob, os, subprocess, sys, shutil, threading, queue
SLOTS=int(os.environ.get('SLOTS','4'))
SNAP=subprocess.run('git -C /verif rev-parse HEAD',shell=True,capture_output=True,text=True).stdout.strip()
out={}
try:
    out=json.load(open('/root/final_targeted.json'))
except Exception:
    pass
only=set(sys.argv[1:])
lock=threading.Lock()
def sh(c,cwd=None,env=None,timeout=3000):
    e=dict(os.environ); e['CARGO_NET_OFFLINE']='true'
    if env: e.update(env)
    try:
        p=subprocess.run(c,shell=True,capture_output=True,text=True,cwd=cwd,env=e,timeout=timeout)
        return p.returncode,p.stdout+p.stderr
    except subprocess.TimeoutExpired:
        return 124,'timeout'
q=queue.Queue()
for d in sorted(glob.glob('/verif/seeded/*/')):
    ident=os.path.basename(d.rstrip('/'))
    if ident.startswith('own-') or (only and ident not in only): continue
    if not only and ident in out and os.environ.get('RESUME'): continue
    q.put((ident,d))
def worker(slot):
    wt=f'/tmp/ft-{slot}-repo'; vroot=f'/tmp/ft-{slot}-verif'; tgt=f'/tmp/ft-{slot}-target'
    sh(f'git -C /repo worktree remove --force {wt}'); sh(f'rm -rf {wt} {vroot}')
    rc,o=sh(f'git -C /repo worktree add -q --detach {wt} HEAD')
    assert rc==0,o
    sh(f'mkdir -p {vroot} && git -C /verif archive {SNAP} | tar -x -C {vroot} && rm -rf {vroot}/seeded {vroot}/evidence/thorough')
    for f2 in [f'{vroot}/engine/Cargo.toml', f'{vroot}/engine/probes/sendsync/Cargo.toml']:
        s=open(f2).read().replace('path = "/repo/regexml"', f'path = "{wt}/regexml"')
        open(f2,'w').write(s)
    env={'CARGO_TARGET_DIR':tgt,'RUSTFLAGS':'--cfg regexml_verif','VERIF_ROOT':vroot}
    while True:
        try: ident,d=q.get_nowait()
        except queue.Empty: break
        prop=ident[:3]
        sh('git checkout -- . ; git clean -fdq regexml',cwd=wt)
        rc,o=sh(f'git apply {d}patch.diff',cwd=wt)
        if rc!=0:
            r='patch no longer applies'
        else:
            rc,o=sh('cargo build --release --offline 2>&1 | tail -3',cwd=f'{vroot}/engine',env=env)
            rc,o=sh(f'{tgt}/release/rxmc check {prop} --tier quick --jobs 4',cwd=f'{vroot}/engine',env=env)
            r={0:'silent',1:'VIOLATION',2:'machinery error',124:'timeout'}.get(rc,str(rc))
            if rc==1 and 'VIOLATION property='+prop not in o: r='exit 1 without VIOLATION line'
        sh('git checkout -- . ; git clean -fdq regexml',cwd=wt)
        with lock:
            out[ident]=r
            print(ident,r,flush=True)
            json.dump(out,open('/root/final_targeted.json','w'),indent=1)
    sh(f'git -C /repo worktree remove --force {wt}'); sh(f'rm -rf {wt} {vroot} {tgt}')
ts=[threading.Thread(target=worker,args=(s,)) for s in range(SLOTS)]
for t in ts: t.start()
for t in ts: t.join()
