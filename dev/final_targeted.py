#!/usr/bin/env python3
"""Development aid: for every seeded change, apply it to /repo's working tree, run the quick tier of the
check of the property it targets, revert; write /root/final_targeted.json (id -> outcome)."""
import json, glob, os, subprocess, sys
out={}
try:
    out=json.load(open('/root/final_targeted.json'))
except Exception:
    pass
only=set(sys.argv[1:])
def sh(c): return subprocess.run(c,shell=True,capture_output=True,text=True)
for d in sorted(glob.glob('/verif/seeded/*/')):
    ident=os.path.basename(d.rstrip('/'))
    if ident.startswith('own-') or (only and ident not in only): continue
    prop=ident[:3]
    sh('git -C /repo checkout -- . ; git -C /repo clean -fdq regexml')
    r=sh(f'git -C /repo apply {d}patch.diff')
    if r.returncode!=0:
        out[ident]='patch no longer applies'
    else:
        c=sh(f'/verif/check {prop} quick')
        out[ident]={0:'silent',1:'VIOLATION',2:'machinery error'}.get(c.returncode,str(c.returncode))
    sh('git -C /repo checkout -- . ; git -C /repo clean -fdq regexml')
    print(ident,out[ident],flush=True)
    json.dump(out,open('/root/final_targeted.json','w'),indent=1)
