#!/usr/bin/env python3
"""Development-time tool: turn confirmed evaluation results (/tmp/evalmut-*.json)
into /verif/seeded/<id>/{patch.diff, demo.rs, meta.json} and print the detection matrix."""
import json, glob, os, shutil, re
rows=[]
SNAPSHOT_BY_ROUND={'':'4d6015a','r2':'ba86044','r3':'68877bb'}
try:
    FINAL=json.load(open('/root/final_targeted.json'))
except Exception:
    FINAL={}
for f in sorted(glob.glob('/tmp/evalmut-C*-*.json')):
    r=json.load(open(f))
    ident=r['id']; prop,i=ident.split('-')
    tag = prop[3:]            # '', 'r2', 'r3', ...
    prop = prop[:3]
    src = f"/tmp/mutout{tag[1:]}-{prop}" if tag else f'/tmp/mutout-{prop}'
    if not os.path.exists(f'{src}/patch{i}.diff'):
        if os.path.exists(f'/verif/seeded/{ident}/patch.diff'):
            continue   # assembled in an earlier session
        print('SOURCE MISSING', ident); continue
    if ident in ('C08r5-1',):
        print('EXCLUDED (edits a snapshot file of the suite)', ident); continue
    ok = (not r.get('error') and r.get('suite_with_patch',{}).get('passed')==1032 and r.get('suite_with_patch',{}).get('failed')==0
          and r.get('demo_with_patch') and r['demo_with_patch'][1]>0 and r.get('demo_clean') and r['demo_clean'][1]==0)
    if not ok:
        print('NOT CONFIRMED',ident,r.get('error'),r.get('suite_with_patch'),r.get('demo_with_patch'),r.get('demo_clean')); continue
    d=f'/verif/seeded/{ident}'
    os.makedirs(d,exist_ok=True)
    shutil.copy(f'{src}/patch{i}.diff',f'{d}/patch.diff')
    rebased=None
    if os.path.exists(f'/verif/dev/rebased/{ident}.diff'):
        # a later fix: commit touched the same lines; the change was carried over by hand
        # and confirmed again (suite 1032/0, demo fails with it, passes without)
        shutil.copy(f'{src}/patch{i}.diff',f'{d}/patch.as-written.diff')
        shutil.copy(f'/verif/dev/rebased/{ident}.diff',f'{d}/patch.diff')
        rebased="patch.diff is the author's change carried over by hand onto /repo HEAD ff69527 (a later fix: commit touched the same lines; the original is patch.as-written.diff); confirmed again: suite 1032 passed / 0 failed with it, demo.rs fails with it and passes without"
    shutil.copy(f'{src}/demo{i}.rs',f'{d}/demo.rs')
    agent_meta=open(f'{src}/meta{i}.txt').read().strip()
    det=r.get('detection',{})
    caught=r.get('caught_by_quick',[])
    thorough = det.get(prop,{}).get('thorough_exit')
    meta={
      "id": ident,
      "origin": "independent sub-agent given only the property text and a scratch worktree of /repo",
      "round": int(tag[1:]) if tag else 1,
      "evaluated_on_verif_commit": r.get('verif_snapshot') or SNAPSHOT_BY_ROUND.get(tag, 'unknown'),
      "targeted_check_quick_on_final_snapshot": FINAL.get(ident),
      "breaks": prop,
      "rebased": rebased,
      "description_by_author": agent_meta,
      "confirmed": {
         "repository_suite_with_patch": r['suite_with_patch'],
         "demo_with_patch_passed_failed": r['demo_with_patch'],
         "demo_on_clean_tree_passed_failed": r['demo_clean'],
      },
      "ran": r.get('ran',[]),
      "caught_by_quick": caught,
      "targeted_check_quick_exit": det.get(prop,{}).get('quick_exit'),
      "targeted_check_thorough_exit": thorough,
      "first_violation_of_targeted_check": det.get(prop,{}).get('first_violation_key'),
      "machinery_errors": r.get('machinery_errors',[]),
      "per_check_quick_exit": {c:det[c]['quick_exit'] for c in sorted(det)},
    }
    json.dump(meta,open(f'{d}/meta.json','w'),indent=1,ensure_ascii=False)
    first=agent_meta.split('\n')[0][:110]
    rows.append((ident, 'yes' if prop in caught else ('thorough' if thorough==1 else 'NO'), ' '.join(caught), first))
print()
for r in rows: print(f"| {r[0]} | {r[1]} | {r[2]} | {r[3]} |")
